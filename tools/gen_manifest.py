#!/usr/bin/env python3
"""Regenerates /verif/MANIFEST.json from the table below (run after adding a check)."""
import json, os, subprocess
V = os.path.dirname(os.path.dirname(os.path.abspath(__file__)))
props = [json.loads(l) for l in open(os.path.join(V, "properties.jsonl"))]
ALL = [p["id"] for p in props]

CHECKS = {
 "C08": dict(tech="invariant monitor (well-formed / normalised) after every step of exhaustive small-universe and random operation programs",
   text="Runtime invariant monitoring: every result of every editing operation is checked for well-formedness (and normalisation where the statement requires it), RemoveNodes against its exact set model. All 4301 well-formed lists on <=3 ids are enumerated as receivers (thorough: against all 4301 arguments), plus random operation histories whose results re-enter the pool. Decides the property for the executions produced; exhaustive only on the enumerated universe.",
   note="Trusts the harness's own WF/normalised predicates and protobuf reflection (proto.Clone). Operands are well-formed by construction and re-checked before each step.", ref="DESIGN.md §5 C08"),
 "C09": dict(tech="reference-model oracle (set algebra + per-field precedence by reflection) on random operand pairs/triples",
   text="Every Union/Add execution is compared with an independent set model (ids, roots, edge triples restricted to present nodes) and the per-field precedence rule evaluated by protobuf reflection over all Node fields; the algebraic laws are evaluated on the same executions. Sampled operands over a 5-id universe including ill-formed ones.",
   note="Trusts the model (validated against the pinned code on the clauses that hold) and protobuf reflection; associativity is only judged where the model itself is associative (always for well-formed operands).", ref="DESIGN.md §5 C09"),
 "C10": dict(tech="reference-model oracle (bounds on ids/roots/edges, laws, per-field precedence) on six classes of operand pairs",
   text="Every Intersect execution is compared with the bounds the statement gives (exact node set, lower/upper bounds for roots and edge triples) plus idempotence, commutativity, absorption, emptiness and per-field precedence by reflection. Sampled pairs in six classes (independent, disjoint, nested, identical, cyclic, ill-formed).",
   note="Trusts the bounds model and protobuf reflection.", ref="DESIGN.md §5 C10"),
 "C15": dict(tech="reference-model oracle (BFS with root boundaries) over all digraphs on 3 (thorough: 4) nodes and random multigraphs; CPU watchdog for termination",
   text="NodeGraph/NodeSiblings/NodeDescendants are executed on every digraph with self-loops on 3 nodes x every root subset x every start x depths 1..5 (thorough: also all 65536 digraphs on 4 nodes) and on random multigraphs up to 30 nodes; results are compared with an independent BFS model, checked for monotonicity and order-independence; a per-case CPU-time watchdog in the supervised child decides termination.",
   note="Trusts the BFS model and the watchdog budget (60 CPU-seconds per case, re-run alone with 10x before a hang is reported).", ref="DESIGN.md §5 C15"),
 "C16": dict(tech="reference-model oracle (documented matching rule, linear filters) under list permutations and repeated calls",
   text="GetMatchingNode is executed on 4 permutations x 3 repetitions of each generated list and compared with a direct transcription of the documented rule; the plain lookups are compared with linear reference filters, including every documented spelling of identifier types.",
   note="Trusts the transcription of the documented rule; empty hash values and duplicate ids are outside the class.", ref="DESIGN.md §5 C16"),
}
LEVEL = {k: "exploration" for k in ALL}
LEVEL["C20"] = "fault_enumeration"

def main():
    hooks_commits = []
    try:
        out = subprocess.run(["git", "-C", "/repo", "log", "--format=%h %s"], capture_output=True, text=True).stdout
        hooks_commits = [l.split()[0] for l in out.splitlines() if l.split(" ", 1)[1].startswith("verif:")]
    except Exception:
        pass
    checks = []
    for pid in ALL:
        if pid not in CHECKS:
            continue
        c = CHECKS[pid]
        checks.append({
            "property_id": pid,
            "quick_cmd": f"./run.sh {pid} quick",
            "thorough_cmd": f"./run.sh {pid} thorough",
            "evidence_file": f"/verif/evidence/{pid}.json",
            "replay_cmd_template": "./run.sh replay {path}",
            "engine": "vcheck",
            "level_claimed": {"category": LEVEL[pid], "text": c["text"], "design_ref": c["ref"]},
            "level_note": c["note"],
            "technique": c["tech"],
        })
    na = [{"property_id": p, "reason": "check not built yet in this session (work in progress; runtime monitoring applies, see DESIGN.md)"} for p in ALL if p not in CHECKS]
    m = {
        "version": 1,
        "setup_cmd": "./run.sh setup",
        "hooks": {
            "guard": "verif",
            "enable": "go build -tags verif (run.sh builds the harness module, which replaces github.com/protobom/protobom with /repo, with -tags verif)",
            "baseline_off_cmd": "cd /repo && GOFLAGS=-mod=mod GOPROXY=off GOSUMDB=off GOTOOLCHAIN=local go test -vet=off -count=1 -timeout 25m ./...",
            "source_commits": hooks_commits,
            "add_only": True,
        },
        "engines": [{"name": "vcheck", "path": "/verif/harness", "serves_properties": sorted(CHECKS), "kind_free_text": "Go harness: seeded workloads run against the real library in supervised child processes; reference-model, invariant, snapshot and history monitors; race detector; ptrace fault injector"}],
        "checks": checks,
        "notes": "All checks run the real code of /repo's working tree (rebuilt on every invocation through Go's build cache). Exit 0 held / 1 violation / 2 inconclusive. Known findings: /verif/known_findings.json.",
        "not_applicable": na,
    }
    json.dump(m, open(os.path.join(V, "MANIFEST.json"), "w"), indent=1)
    print("wrote MANIFEST.json with", len(checks), "checks;", len(na), "not claimed")

main()
