#!/usr/bin/env python3
"""Regenerates /verif/MANIFEST.json from the table below (run after adding a check)."""
import json, os, subprocess
V = os.path.dirname(os.path.dirname(os.path.abspath(__file__)))
props = [json.loads(l) for l in open(os.path.join(V, "properties.jsonl"))]
ALL = [p["id"] for p in props]

CHECKS = {
 "C01": dict(tech="round-trip oracle at the writer/reader boundary: canonical projection compared before/after, two passes, coverage-forced enums",
   text="Generated documents of the SPDX-representable class (13 graph shapes incl. cycles, self loops, several edges per source/type, several/no roots; all 44 edge types and 16 checksum algorithms forced in turn; every carried attribute independently present; 6 indentations) are written through writer.WriteStreamWithOptions and read back through reader.ParseStream; a projection built from the statement (node set, typed edge triples, roots, per-node attributes under the NOASSERTION/NONE conventions, dates to the second, first supplier/originator as SPDX actor strings) is compared, and a second pass must be a fixed point.",
   note="Trusts the projection (input-class narrowings are listed in the evidence assumptions and DESIGN.md) and tools-golang's JSON encoder/decoder as part of the observed system.", ref="DESIGN.md §5 C01"),
 "C02": dict(tech="round-trip oracle over single-rooted containment trees x every permutation of the stored edge list (<=4/5 edges) x CycloneDX 1.4/1.5",
   text="Generated containment trees (random, deep, wide; grouped or split edges) with per-version component types, external-reference types and hash algorithms forced in turn are written in every permutation of their stored edge list when small (4 PRNG-chosen orders otherwise), read back and compared through a projection (node set, root, parent map, per-node CycloneDX attributes, serial number, version, lifecycles); second pass must be a fixed point.",
   note="Trusts the projection and the harness's own per-version tables; cyclonedx-go is part of the observed system. Known finding cdx-reader-first-licence-only is keyed by a computed signature.", ref="DESIGN.md §5 C02"),
 "C03": dict(tech="independent-decoder oracle: writer output decoded with encoding/json only and compared with the document using the harness's own specification tables; read-back identity monitor",
   text="Well-formed documents (generated graphs outside the round-trip classes; the repository's 12 real SPDX/CycloneDX SBOMs parsed by protobom, unmodified and under JSON-level mutations) are written in every registered format; each successful output is decoded without any protobom/SPDX/CycloneDX library type and checked for: every node present (exactly once when containment is a forest), every expressible relationship under its specification name, nothing invented, no dangling reference; then read back and identity attributes compared.",
   note="Trusts encoding/json and the harness's transcription of the SPDX 2.3 relationship/checksum names and the CycloneDX hash names. Writer errors are acceptable outcomes; CycloneDX 1.0/1.1 outputs are not judged.", ref="DESIGN.md §5 C03"),
 "C04": dict(tech="crash/exit/hang monitors in supervised child processes + return-shape predicate + logical cost monitor over exhaustive single-fault and sampled double-fault JSON mutations",
   text="Every single schema fault at every JSON path of four hand-written representative documents, sampled (thorough: 1.2 M) double faults, truncations, token soups, 10 000-deep nesting and size series are pushed through SniffReader, ParseStream and ParseStreamWithOptions for all 7 registered formats inside supervised children: recover() reports panics with the panicking function as signature, a dead child is attributed to the case logged before it ran, the return-shape predicate is checked on every call, and growth exponents of allocated bytes decide the polynomial-time clause (a CPU/heap watchdog, never wall time, decides hangs).",
   note="'All byte strings' is sampled; exhaustive only over the single-fault space of the representative documents. Known finding cdx-license-expression-exponential (keyed by the licences path) is confirmed on every run.", ref="DESIGN.md §5 C04"),
 "C05": dict(tech="invariant monitor on parsed graphs + metamorphic oracle over >=9 JSON re-encodings, repeated and explicit-format parses",
   text="Inputs from the harness's own SPDX 2.3 and CycloneDX 1.3-1.5 JSON generators (arbitrary nesting, duplicate/missing bom-refs, absent metadata component, self-containment, special relationship targets), from protobom's writers and from mutated real SBOMs are parsed; an invariant monitor checks closure, id non-emptiness/uniqueness relative to the input and the alphabet/uniqueness of generated ids; each input is re-parsed from the same bytes, with the format stated explicitly and under white-space, member-order and string-escape re-encodings produced by an order-preserving JSON tree, and all parses must be equivalent with identical identifiers. NewNodeIdentifier is monitored on arbitrary seeds.",
   note="Array order is part of the JSON value and is not permuted. Escapes in strings that tools-golang reads from raw bytes are the known finding spdx-raw-string-escape (computed signature: the same escape mode with those positions left alone must be equivalent).", ref="DESIGN.md §5 C05"),
 "C06": dict(tech="partial reference detector + instrumented ReadSeeker (offset monitor) over writer outputs x indentations x re-encodings and a negative/near-miss corpus",
   text="Writer outputs for SPDX 2.3 and CycloneDX 1.3/1.4/1.5 at six indentations and under eight JSON re-encodings must be detected as exactly that format, with agreeing Type/Version/Encoding accessors, the stream back at offset 0 (an instrumented ReadSeeker records every Read/Seek) and ParseStream equal to ParseStreamWithOptions(F); a corpus of negative and near-miss declarations (nested, in arrays, in strings, unsupported versions, tag-value files quoting a supported version elsewhere, no marker) must be rejected; soups and mutated declarations are executed for totality and rewind.",
   note="The reference detector is deliberately partial and decides only clear cases; everything else is executed for totality and rewind only.", ref="DESIGN.md §5 C06"),
 "C07": dict(tech="crash/exit/hang monitors in supervised children + determinism oracle over interleaved serialization schedules",
   text="Reflection-populated and programmatically built Document values (nil metadata/node list, nil maps, unknown enum numbers, every subset of DocumentType's optional fields, empty/duplicate/generated ids, dangling edges, cyclic containment, 0..many roots, invalid UTF-8; half of them through proto.Marshal/Unmarshal) are serialized in all 8 registered formats (incl. the SPDX 3 beta serializer) inside supervised children in the schedule d0,d1,d0,d2,d3,d0; panics are recovered and reported with the panicking function, process deaths are attributed by the parent, a CPU/heap watchdog decides hangs, and the three outputs of d0 must agree after removing creation timestamps and sorting all arrays.",
   note="nil elements inside repeated message fields are outside the class. Array order is ignored entirely when comparing outputs (coarser than the statement requires, hence never a false alarm).", ref="DESIGN.md §5 C07"),
 "C08": dict(tech="invariant monitor (well-formed / normalised) after every step of exhaustive small-universe and random operation programs",
   text="Runtime invariant monitoring: every result of every editing operation is checked for well-formedness (and normalisation where the statement requires it), RemoveNodes against its exact set model. All 4301 well-formed lists on <=3 ids are enumerated as receivers (thorough: against all 4301 arguments), plus random operation histories whose results re-enter the pool. Decides the property for the executions produced; exhaustive only on the enumerated universe.",
   note="Trusts the harness's own WF/normalised predicates and protobuf reflection (proto.Clone). Operands are well-formed by construction and re-checked before each step.", ref="DESIGN.md §5 C08"),
 "C09": dict(tech="reference-model oracle (set algebra + per-field precedence by reflection) on random operand pairs/triples",
   text="Every Union/Add execution is compared with an independent set model (ids, roots, edge triples restricted to present nodes) and the per-field precedence rule evaluated by protobuf reflection over all Node fields; the algebraic laws are evaluated on the same executions. Sampled operands over a 5-id universe including ill-formed ones.",
   note="Trusts the model (validated against the pinned code on the clauses that hold) and protobuf reflection; associativity is only judged where the model itself is associative (always for well-formed operands).", ref="DESIGN.md §5 C09"),
 "C10": dict(tech="reference-model oracle (bounds on ids/roots/edges, laws, per-field precedence) on six classes of operand pairs",
   text="Every Intersect execution is compared with the bounds the statement gives (exact node set, lower/upper bounds for roots and edge triples) plus idempotence, commutativity, absorption, emptiness and per-field precedence by reflection. Sampled pairs in six classes (independent, disjoint, nested, identical, cyclic, ill-formed).",
   note="Trusts the bounds model and protobuf reflection.", ref="DESIGN.md §5 C10"),
 "C11": dict(tech="snapshot monitor (order-sensitive proto.Equal before/after every read-only or value-returning call) + Go race detector on 16 goroutines sharing one document",
   text="Every read-only / value-returning public operation (28 sbom operations, enum helpers, WriteStream in the 7 registered formats, storage.Store) is executed on schema-populated operands with a field-by-field snapshot comparison around the call; the same operations run concurrently on one shared document in a -race build whose GORACE logs are parsed (reports with protobom frames are violations). A reflection pass over the exported method sets makes the run inconclusive when it meets an unclassified method.",
   note="Trusts proto.Clone/proto.Equal and the race detector (happens-before: it reports races on the accesses executed, so coverage is by overlapping operation pair, measured and written to the evidence). Panics are not judged here (C04/C07/C15).", ref="DESIGN.md §5 C11"),
 "C12": dict(tech="mutation-at-every-reflected-path monitor on copies and Union/Intersect results, plus a history monitor re-verifying earlier result snapshots",
   text="For Node, Edge, Person, ExternalReference and NodeList every mutation site enumerated by protobuf reflection (scalars, list elements and growth, map entries, nested messages to depth 3) is mutated on one side of {copy, source} / {result, operand} and the other side compared with its pre-mutation snapshot, in both directions; random call histories re-verify all earlier result snapshots after each later call.",
   note="Trusts protobuf reflection to reach the same Go slices/maps the API exposes (it does: protoreflect lists/maps wrap the struct fields). Values hold no nil elements in repeated message fields.", ref="DESIGN.md §5 C12"),
 "C13": dict(tech="metamorphic oracle over reflection-enumerated single-attribute mutants and permuted presentations; equivalence laws on random triples",
   text="For nodes, edges and node lists: a fully populated base value, a permuted presentation and one mutant per reflected mutation site are compared pairwise: reflexivity, symmetry, transitivity, Equal<=>Checksum, permutation invariance and inequality of every single-attribute mutant (dates +7 s unequal, sub-second changes equal). Random triples with arbitrary text check the laws; crafted pairs confirm the separator-collision known finding.",
   note="Verdict cases use separator-free text (the collision class is a known finding keyed by a computed signature). Multiset changes of list attributes and contact order are not judged.", ref="DESIGN.md §5 C13"),
 "C14": dict(tech="reference-model oracle (per-attribute comparator by reflection) plus reconstruction monitor apply(a,diff)==b",
   text="Ordered node pairs of six kinds (independent, single-attribute mutants at every reflected site, permuted copies, empty-vs-absent collections, duplicates, sub-second date changes) are diffed in both directions; nil-ness, DiffCount and reconstruction of the second node from the first and the diff are checked against a reference comparator over all schema attributes.",
   note="Trusts the reference comparator and the documented meaning of Added/Removed; separator-free text.", ref="DESIGN.md §5 C14"),
 "C17": dict(tech="Go race detector + abort monitor + per-call sequential oracle + porcupine linearizability check of recorded registry histories, with verif-tagged yield points widening the interleaving windows",
   text="Rounds in fresh processes: a fixed call set (sniffing JSON/tag-value/garbage, parsing, parsing with reader options, writing independent documents through writers built WithFormat(F)) is executed sequentially and then from 4/16/64 goroutines while both format registries are churned; every concurrent result must equal its sequential result. Registry histories (2-4 clients, <=200 operations, 2-3 contended keys, one atomic clock) are checked for linearizability against a per-key register with porcupine v1.3.0. The same rounds run in a -race build whose GORACE logs are parsed; a runtime abort kills the supervised child and is attributed to the round. The verif build tag installs yield points (pkg/verifhook) at five interleaving windows; their global order is logged and hashed as the interleaving signature.",
   note="Schedules are sampled (distinct interleaving signatures are counted in the evidence); the race detector reports races on executed accesses (happens-before). A porcupine timeout makes the run inconclusive.", ref="DESIGN.md §5 C17"),
 "C18": dict(tech="history monitor with a per-instance configuration model, each history in a fresh process; behavioural observation through WriteStream output and a recording storage backend",
   text="Histories of constructor calls with every subset of the options (forced in the first cases; nil arguments included) and per-call WriteStreamWithOptions/ParseStreamWithOptions are executed in fresh processes; after every step every live instance is compared with its own model - Options fields, the format and indentation WriteStream really produces, the options a recording backend receives from Store/Retrieve - and a constructor without options must show the documented defaults.",
   note="What an absent per-call field falls back to is not judged. Indentation is observable on SPDX output only (CycloneDX rendering ignores it).", ref="DESIGN.md §5 C18"),
 "C19": dict(tech="history monitor against a map model with one child process per call (uid 65534), tree listing + ptrace syscall log for confinement, on-disk faults and ptrace-injected errnos at every syscall",
   text="Histories of Store/Retrieve calls (hostile identifiers, missing/nested/existing directory, both no-clobber settings) run through the public FileSystem backend in fresh unprivileged child processes and are compared with a map model after every call (round trip by proto.Equal, isolation by re-retrieving every known id, confinement by listing the tree with content hashes and by the ptrace log of created/renamed paths, no-clobber by entry bytes). Fault steps: unknown id, chmod 000, directory in place of the entry, 0-byte/truncated/bit-flipped/garbage entries, and EACCES/EIO/ENOSPC/EMFILE injected with ptrace at every file-system syscall of a Store and of a Retrieve; a process exit, neither/both or an empty document is a violation.",
   note="A corrupted entry that still decodes to a non-empty document with the requested id is tolerated. Needs root to drop to uid 65534 and ptrace (present in this sandbox).", ref="DESIGN.md §5 C19"),
 "C20": dict(tech="crash-point enumeration with a ptrace injector: SIGKILL at every file-system syscall stop and torn writes at chosen/all prefix lengths, followed by fresh-process retrieval",
   text="The storing child runs under a Go ptrace tracer that follows all threads and numbers the entry/exit stops of every file-system syscall on the store directory; after a fault-free run fixes the sequence, the child is killed at every stop and, for each write, at each chosen prefix (thorough: every prefix for documents <= 8 KB, 4096 stratified at 64 KB) by rewriting the length register at syscall entry and killing at exit. After each trial fresh processes retrieve the target and two bystander ids: the outcome must be the complete old document, the complete new one or an error return; bystanders must be intact. Five scenarios x four document sizes.",
   note="Process death only (page cache survives). Exhaustive for the syscall sequence the fault-free run exhibits; an unknown file-system syscall makes the run fail rather than pass silently.", ref="DESIGN.md §5 C20"),
 "C15": dict(tech="reference-model oracle (BFS with root boundaries) over all digraphs on 3 (thorough: 4) nodes and random multigraphs; CPU watchdog for termination",
   text="NodeGraph/NodeSiblings/NodeDescendants are executed on every digraph with self-loops on 3 nodes x every root subset x every start x depths 1..5 (thorough: also all 65536 digraphs on 4 nodes) and on random multigraphs up to 30 nodes; results are compared with an independent BFS model, checked for monotonicity and order-independence; a per-case CPU-time watchdog in the supervised child decides termination.",
   note="Trusts the BFS model and the watchdog budget (60 CPU-seconds per case, re-run alone with 10x before a hang is reported).", ref="DESIGN.md §5 C15"),
 "C16": dict(tech="reference-model oracle (documented matching rule, linear filters) under list permutations and repeated calls",
   text="GetMatchingNode is executed on 4 permutations x 3 repetitions of each generated list and compared with a direct transcription of the documented rule; the plain lookups are compared with linear reference filters, including every documented spelling of identifier types.",
   note="Trusts the transcription of the documented rule; empty hash values and duplicate ids are outside the class.", ref="DESIGN.md §5 C16"),
}
LEVEL = {k: "exploration" for k in ALL}
LEVEL["C20"] = "fault_enumeration"

def main():
    hooks_commits = []
    try:
        out = subprocess.run(["git", "-C", "/repo", "log", "--format=%h %s"], capture_output=True, text=True).stdout
        hooks_commits = [l.split()[0] for l in out.splitlines() if l.split(" ", 1)[1].startswith("verif:")]
    except Exception:
        pass
    checks = []
    for pid in ALL:
        if pid not in CHECKS:
            continue
        c = CHECKS[pid]
        checks.append({
            "property_id": pid,
            "quick_cmd": f"./run.sh {pid} quick",
            "thorough_cmd": f"./run.sh {pid} thorough",
            "evidence_file": f"/verif/evidence/{pid}.json",
            "replay_cmd_template": "./run.sh replay {path}",
            "engine": "vcheck",
            "level_claimed": {"category": LEVEL[pid], "text": c["text"], "design_ref": c["ref"]},
            "level_note": c["note"],
            "technique": c["tech"],
        })
    na = [{"property_id": p, "reason": "check not built yet in this session (work in progress; runtime monitoring applies, see DESIGN.md)"} for p in ALL if p not in CHECKS]
    m = {
        "version": 1,
        "setup_cmd": "./run.sh setup",
        "hooks": {
            "guard": "verif",
            "enable": "go build -tags verif (run.sh builds the harness module, which replaces github.com/protobom/protobom with /repo, with -tags verif)",
            "baseline_off_cmd": "cd /repo && GOFLAGS=-mod=mod GOPROXY=off GOSUMDB=off GOTOOLCHAIN=local go test -vet=off -count=1 -timeout 25m ./...",
            "source_commits": hooks_commits,
            "add_only": True,
        },
        "engines": [{"name": "vcheck", "path": "/verif/harness", "serves_properties": sorted(CHECKS), "kind_free_text": "Go harness: seeded workloads run against the real library in supervised child processes; reference-model, invariant, snapshot and history monitors; race detector; ptrace fault injector"}],
        "checks": checks,
        "notes": "All checks run the real code of /repo's working tree (rebuilt on every invocation through Go's build cache). Exit 0 held / 1 violation / 2 inconclusive. Known findings: /verif/known_findings.json.",
        "not_applicable": na,
    }
    json.dump(m, open(os.path.join(V, "MANIFEST.json"), "w"), indent=1)
    print("wrote MANIFEST.json with", len(checks), "checks;", len(na), "not claimed")

main()
