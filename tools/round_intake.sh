#!/bin/bash
# tools/round_intake.sh <round-number> <suffix-letter> <prop>... : intake + selftest of the seeds of one round
# (worktrees /tmp/seed<round>-<prop>); the demo's package directory and test names are read from the demo file.
rnd=$1; sfx=$2; shift 2
cd /verif
for p in "$@"; do
  w=/tmp/seed$rnd-$p
  demo=$(ls $w/seed/_demo/*_test.go 2>/dev/null | head -1)
  [ -z "$demo" ] && { echo "== $p: no demo file"; continue; }
  pk=$(grep -m1 '^package ' "$demo" | awk '{print $2}' | sed 's/_test$//')
  case $pk in
    sbom) dir=pkg/sbom;; serializers) dir=pkg/native/serializers;; unserializers) dir=pkg/native/unserializers;;
    writer) dir=pkg/writer;; reader) dir=pkg/reader;; formats) dir=pkg/formats;; storage) dir=pkg/storage;; native) dir=pkg/native;;
    conformance) dir=test/conformance;; *) echo "== $p: unknown package $pk"; continue;;
  esac
  tests=$(grep -o '^func Test[A-Za-z0-9_]*' "$demo" | awk '{print $2}' | paste -sd'|')
  race=""; case $p in C11|C17) race="-race";; esac
  echo "== $p ($dir, $tests)"
  tools/seed3.sh ${p}$sfx $p $w $dir "-run ^($tests)\$ $race ./$dir" "seed/_demo/$(basename $demo)" 2>&1 | tail -2 | cut -c1-400
done
