#!/usr/bin/env python3
# tools/seedmeta.py <seeded-id> <property> "<change>" "<needs>" "<detection>"
import json,sys,os
i,prop,change,needs,det=sys.argv[1:6]
d=f'/verif/seeded/{i}'
v=open(d+'/.verified').read().split()
json.dump({"property":prop,"source":"independent sub-agent given only the property text (and a one-line description of the first-round change to avoid) and a scratch worktree",
 "verified_by_me":{"demo_passes_without_change":v[0]=="0","demo_fails_with_change":v[1]!="0","existing_suite_passes_with_change":v[2]=="0"},
 "run_checks":[prop],"change":change,"needs_to_manifest":needs,"detection":det,
 "what_i_ran":"tools/intake_seed.sh (demo on unchanged tree: pass; git apply patch.diff; go build; demo: fail; go test -vet=off -count=1 ./...: pass) and tools/selftest.sh seeded "+i},open(d+'/meta.json','w'),indent=1)
os.remove(d+'/.verified')
