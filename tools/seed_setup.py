#!/usr/bin/env python3
# tools/seed_setup.py <round-number> [props...]: scratch worktrees /tmp/seed<round>-<prop> of /repo for independent
# sub-agents, each holding only the property text (seed/PROPERTY.txt) and one-line descriptions of the changes
# earlier rounds already produced for that property (seed/ALREADY_DONE.txt). Nothing from /verif's checks goes in.
import json,sys,os,subprocess,glob
rnd=sys.argv[1]; only=sys.argv[2:]
props=[json.loads(l) for l in open('/verif/properties.jsonl')]
for p in props:
    pid=p['id']
    if only and pid not in only: continue
    w=f'/tmp/seed{rnd}-{pid}'
    subprocess.run(['git','-C','/repo','worktree','add','-q','--detach',w,'HEAD'],check=True)
    os.makedirs(w+'/seed',exist_ok=True)
    with open(w+'/seed/PROPERTY.txt','w') as f:
        f.write(f"{pid}: {p['title']}\n\nStatement: {p['statement']}\n\nHolds for: {p['quantifier']['text']}\n\nWhy unit tests cannot settle it: {p['why_tests_cant']}\n\nCode it is anchored in: {', '.join(p['anchors']['files'])}\n")
        for m in p['anchors'].get('mechanism',[]):
            f.write(f"  - {m['name']}: {m['where']}\n")
    done=[]
    for d in sorted(glob.glob(f'/verif/seeded/{pid}*')):
        try: m=json.load(open(d+'/meta.json'))
        except Exception: continue
        if m.get('property')!=pid or 'change' not in m: continue
        done.append(f"- {m['change']}\n  (needed: {m['needs_to_manifest']})")
    open(w+'/seed/ALREADY_DONE.txt','w').write("\n".join(done)+"\n")
    print(w,len(done))
