#!/usr/bin/env python3
import json, jsonschema, glob, sys
ok = True
try:
    jsonschema.validate(json.load(open('/verif/MANIFEST.json')), json.load(open('/root/.vp/MANIFEST.schema.json'))); print('manifest valid')
except Exception as e:
    ok = False; print('MANIFEST INVALID', e)
es = json.load(open('/root/.vp/EVIDENCE.schema.json'))
for f in sorted(glob.glob('/verif/evidence/*.json')):
    try:
        jsonschema.validate(json.load(open(f)), es); print(f, 'valid')
    except Exception as e:
        ok = False; print(f, 'INVALID', str(e)[:300])
sys.exit(0 if ok else 1)
