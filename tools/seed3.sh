#!/bin/bash
# tools/seed3.sh <id> <property> <worktree> <pkg dir for the demo> "<go test args>" [demo src]
id=$1; prop=$2; w=$3; pkg=$4; args=$5; src=${6:-seed/_demo/seed_demo_test.go}
cd /verif
SEEDW=$w tools/intake_seed.sh $id $src $pkg/seed_demo_test.go "$args" 2>&1 | tail -1
echo "{\"property\":\"$prop\",\"run_checks\":[\"$prop\"]}" > seeded/$id/meta.json
SELFTEST_RES=/tmp/selftest-$id.txt tools/selftest.sh seeded $id | grep "^seeded-" | cut -c1-400
