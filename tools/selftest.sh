#!/bin/bash
# Self-validation (not a registered check): re-introduces each repaired defect (git revert of a "fix:" commit)
# or applies a patch from seeded/*/patch.diff on a scratch worktree of /repo and expects the property's quick check to fail.
#   tools/selftest.sh reverts            # every fixed entry of known_findings.json
#   tools/selftest.sh seeded [id...]     # every /verif/seeded/<id>/patch.diff (or the named ones)
set -u
VERIF=$(cd "$(dirname "$0")/.." && pwd)
MODE=${1:-reverts}; shift || true
OUT=$(mktemp -d /tmp/vselftest-out.XXXXXX)
RES=${SELFTEST_RES:-$VERIF/selftest-results.txt}
: > "$RES"
run_one() { # label prop scratch
  local label=$1 prop=$2 scratch=$3
  local log=$OUT/$label.$prop.log
  VERIF_REPO=$scratch VERIF_OUT=$OUT "$VERIF/run.sh" "$prop" quick > "$log" 2>&1
  local rc=$?
  local sigs=$(grep -o 'signature=[^ ]*' "$log" | sort -u | head -5 | tr '\n' ' ')
  echo "$label $prop exit=$rc $sigs" | tee -a "$RES"
  rm -rf "$VERIF/bin/alt-$(echo "$scratch" | md5sum | cut -c1-8)"
}
if [ "$MODE" = reverts ]; then
  python3 - "$VERIF" <<'PY' > $OUT/list.txt
import json,sys,re
k=json.load(open(sys.argv[1]+'/known_findings.json'))
seen=set()
for l in k['fixed']:
    m=re.match(r'fixed: property=(C\d+) ([0-9a-f]{7,})', l)
    if m and (m.group(1),m.group(2)) not in seen:
        seen.add((m.group(1),m.group(2))); print(m.group(1), m.group(2))
PY
  while read prop commit; do
    scratch=/tmp/vself-$commit-$prop
    git -C /repo worktree add -q --detach "$scratch" HEAD 2>/dev/null || { echo "$commit $prop worktree-failed" | tee -a "$RES"; continue; }
    if git -C "$scratch" revert -n "$commit" >/dev/null 2>&1; then
      run_one "revert-$commit" "$prop" "$scratch"
    else
      echo "revert-$commit $prop revert-conflict" | tee -a "$RES"
    fi
    git -C /repo worktree remove --force "$scratch"
  done < $OUT/list.txt
else
  ids="$@"; [ -z "$ids" ] && ids=$(ls "$VERIF/seeded" 2>/dev/null)
  for id in $ids; do
    d=$VERIF/seeded/$id
    [ -f "$d/patch.diff" ] || continue
    props=$(python3 -c "import json;m=json.load(open('$d/meta.json'));print(' '.join(m.get('run_checks') or [m['property']]))")
    scratch=/tmp/vself-seeded-$id
    git -C /repo worktree add -q --detach "$scratch" HEAD 2>/dev/null || { echo "$id worktree-failed" | tee -a "$RES"; continue; }
    if git -C "$scratch" apply "$d/patch.diff" 2>/dev/null; then
      for prop in $props; do run_one "seeded-$id" "$prop" "$scratch"; done
    else
      echo "seeded-$id patch-does-not-apply" | tee -a "$RES"
    fi
    git -C /repo worktree remove --force "$scratch"
  done
fi
rm -rf "$OUT"
echo "results in $RES"
