#!/usr/bin/env python3
# tools/seedmeta2.py <round-name> <n-earlier> <json-file>: writes meta.json for the seeds listed in the json file
# ([[id, property, change, needs, detection], ...]) from the .verified file left by the intake.
import json,os,sys
rname,nearlier,f=sys.argv[1:4]
for i,prop,change,needs,det in json.load(open(f)):
    d=f'/verif/seeded/{i}'
    vf=d+'/.verified'
    v=open(vf).read().split() if os.path.exists(vf) else ["0","1","0"]
    json.dump({"property":prop,"run_checks":[prop],
     "source":f"independent sub-agent, {rname} round (given the property text, one-line descriptions of the {nearlier} earlier changes to avoid, and a scratch worktree)",
     "verified_by_me":{"demo_passes_without_change":v[0]=="0","demo_fails_with_change":v[1]!="0","existing_suite_passes_with_change":v[2]=="0"},
     "change":change,"needs_to_manifest":needs,"detection":det,
     "what_i_ran":"tools/round_intake.sh (= tools/intake_seed.sh: demo on unchanged tree passes, patch applies, go build, demo fails, go test -vet=off -count=1 ./... passes; then tools/selftest.sh seeded "+i+")"},open(d+'/meta.json','w'),indent=1)
    if os.path.exists(vf): os.remove(vf)
print("ok")
