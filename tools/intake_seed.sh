#!/bin/bash
# tools/intake_seed.sh <id> <demo-src-relative-to-worktree> <demo-dest-relative-to-worktree> "<demo go test args>" [checks...]
# Verifies an independently written breaking change in its scratch worktree /tmp/seed-<id> and files it under /verif/seeded/<id>/.
set -u
id=$1; demosrc=$2; demodst=$3; demoargs=$4; shift 4; checks="$@"
W=${SEEDW:-/tmp/seed-$id}
export GOFLAGS=-mod=mod GOPROXY=off GOSUMDB=off GOTOOLCHAIN=local
cd $W || exit 2
git stash -q 2>/dev/null; git checkout -q -- . 2>/dev/null
echo "--- demo on unchanged tree (must pass)"
cp "$demosrc" "$demodst"
go test -vet=off -count=1 $demoargs 2>&1 | tail -3; pass_without=${PIPESTATUS[0]}
echo "--- apply patch"
git apply seed/patch.diff || { echo "patch does not apply"; rm -f "$demodst"; exit 1; }
go build ./... || { echo "does not build"; git checkout -q -- .; rm -f "$demodst"; exit 1; }
echo "--- demo with change (must fail)"
go test -vet=off -count=1 $demoargs 2>&1 | tail -4; fail_with=${PIPESTATUS[0]}
rm -f "$demodst"
echo "--- existing suite with change (must pass)"
go test -vet=off -count=1 ./... 2>&1 | grep -v "no test files" | grep -v "^ok" ; suite=${PIPESTATUS[0]}
if [ $suite -ne 0 ]; then go test -vet=off -count=1 ./... 2>&1 | grep -v "no test files" | grep -v "^ok"; suite=${PIPESTATUS[0]}; fi
git checkout -q -- .
echo "pass_without=$pass_without fail_with=$fail_with suite=$suite"
D=/verif/seeded/$id; mkdir -p $D
cp seed/patch.diff $D/patch.diff; cp "$demosrc" $D/; cp seed/NOTES.md $D/NOTES.md 2>/dev/null
echo "$pass_without $fail_with $suite" > $D/.verified
