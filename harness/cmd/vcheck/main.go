package main

import (
	"verifharness/internal/core"
	"verifharness/internal/props"
)

func main() {
	core.Main(props.Extra)
}
