package main

import "verifharness/internal/cold"

func main() { cold.Main() }
