//go:build linux && amd64

// Package ptrace is a small syscall-level tracer used as crash/fault injector: it follows all threads of a
// child, numbers the entry and exit stops of the file-system syscalls that touch a watched directory in one
// global order, and can SIGKILL the child at a chosen stop, tear a write (shorten its length register and kill
// at its exit) or make a syscall fail with a chosen errno.
package ptrace

import (
	"fmt"
	"os"
	"os/exec"
	"runtime"
	"strings"
	"syscall"
)

const (
	sysRead          = 0
	sysWrite         = 1
	sysOpen          = 2
	sysClose         = 3
	sysStat          = 4
	sysLstat         = 6
	sysPwrite64      = 18
	sysFsync         = 74
	sysFdatasync     = 75
	sysFtruncate     = 77
	sysRename        = 82
	sysMkdir         = 83
	sysLink          = 86
	sysUnlink        = 87
	sysFchmod        = 91
	sysOpenat        = 257
	sysMkdirat       = 258
	sysNewfstatat    = 262
	sysUnlinkat      = 263
	sysRenameat      = 264
	sysLinkat        = 265
	sysFchmodat      = 268
	sysRenameat2     = 316
	sysCopyFileRange = 326
	sysStatx         = 332
	sysIoUringSetup  = 425
	sysOpenat2       = 437
	sysSendfile      = 40
	sysPwritev       = 296
	sysWritev        = 20
	sysSymlink       = 88
	sysSymlinkat     = 266
	sysFallocate     = 285
	sysMmap          = 9
)

var names = map[uint64]string{
	sysRead: "read", sysWrite: "write", sysOpen: "open", sysClose: "close", sysStat: "stat", sysLstat: "lstat", sysPwrite64: "pwrite64", sysFsync: "fsync",
	sysFdatasync: "fdatasync", sysFtruncate: "ftruncate", sysRename: "rename", sysMkdir: "mkdir", sysLink: "link", sysUnlink: "unlink", sysFchmod: "fchmod",
	sysOpenat: "openat", sysMkdirat: "mkdirat", sysNewfstatat: "newfstatat", sysUnlinkat: "unlinkat", sysRenameat: "renameat", sysLinkat: "linkat",
	sysFchmodat: "fchmodat", sysRenameat2: "renameat2", sysCopyFileRange: "copy_file_range", sysStatx: "statx", sysIoUringSetup: "io_uring_setup",
	sysOpenat2: "openat2", sysSendfile: "sendfile", sysPwritev: "pwritev", sysWritev: "writev", sysSymlink: "symlink", sysSymlinkat: "symlinkat", sysFallocate: "fallocate",
}

// Known: the file-system syscalls the enumeration understands. Anything else that touches the watched
// directory (by path) is reported in Result.Unknown so that a check can refuse to be silent about it.
var understood = map[uint64]bool{
	sysRead: true, sysWrite: true, sysOpen: true, sysClose: true, sysStat: true, sysLstat: true, sysPwrite64: true, sysFsync: true, sysFdatasync: true,
	sysFtruncate: true, sysRename: true, sysMkdir: true, sysLink: true, sysUnlink: true, sysFchmod: true, sysOpenat: true, sysMkdirat: true,
	sysNewfstatat: true, sysUnlinkat: true, sysRenameat: true, sysLinkat: true, sysFchmodat: true, sysRenameat2: true, sysStatx: true,
}

// data-moving syscalls the tracer cannot tear or attribute: their appearance on a watched fd is "unknown"
var opaque = map[uint64]bool{sysCopyFileRange: true, sysIoUringSetup: true, sysSendfile: true, sysPwritev: true, sysWritev: true, sysFallocate: true, sysOpenat2: true}

type Event struct {
	Stop  int    `json:"stop"` // index among the watched stops (entry and exit counted separately)
	TID   int    `json:"tid"`
	Name  string `json:"name"`
	Entry bool   `json:"entry"`
	Path  string `json:"path,omitempty"`
	Path2 string `json:"path2,omitempty"`
	FD    int64  `json:"fd,omitempty"`
	Len   uint64 `json:"len,omitempty"` // write length at entry
	Ret   int64  `json:"ret,omitempty"` // at exit
	Flags uint64 `json:"flags,omitempty"`
}

type Plan struct {
	Watch   string // directory prefix: only syscalls touching it are numbered
	KillAt  int    // stop index at which the child is SIGKILLed (-1: never)
	TornAt  int    // stop index of a write ENTRY whose length is cut to TornLen; the child is killed at the matching exit (-1: never)
	TornLen uint64
	ErrnoAt int // stop index of a syscall ENTRY that is voided and made to return -Errno (-1: never)
	Errno   int
}

func NoFault(watch string) Plan { return Plan{Watch: watch, KillAt: -1, TornAt: -1, ErrnoAt: -1} }

type Result struct {
	Events   []Event
	Killed   bool
	Injected bool
	ExitCode int
	Signal   string
	Unknown  []string // syscalls touching the watched directory that the enumeration does not understand
	AllPaths []string // every path created/written/renamed by the child, watched or not (confinement)
}

type threadState struct {
	inSyscall bool
	sysno     uint64
	watched   bool
	path      string
	torn      bool
	voided    bool
}

func peekString(pid int, addr uintptr) string {
	if addr == 0 {
		return ""
	}
	var out []byte
	buf := make([]byte, 256)
	for len(out) < 4096 {
		n, err := syscall.PtracePeekData(pid, addr+uintptr(len(out)), buf)
		if err != nil || n == 0 {
			// try a smaller read near a page end
			b1 := make([]byte, 8)
			n1, err1 := syscall.PtracePeekData(pid, addr+uintptr(len(out)), b1)
			if err1 != nil || n1 == 0 {
				break
			}
			buf = b1
			n = n1
		}
		for i := 0; i < n; i++ {
			if buf[i] == 0 {
				return string(append(out, buf[:i]...))
			}
		}
		out = append(out, buf[:n]...)
	}
	return string(out)
}

// Run starts cmd under the tracer and applies the plan. It must be called from a goroutine that may lock its OS thread.
func Run(cmd *exec.Cmd, plan Plan) (*Result, error) {
	runtime.LockOSThread()
	defer runtime.UnlockOSThread()
	if cmd.SysProcAttr == nil {
		cmd.SysProcAttr = &syscall.SysProcAttr{}
	}
	cmd.SysProcAttr.Ptrace = true
	if err := cmd.Start(); err != nil {
		return nil, err
	}
	pid := cmd.Process.Pid
	res := &Result{}
	var ws syscall.WaitStatus
	if _, err := syscall.Wait4(pid, &ws, syscall.WALL, nil); err != nil {
		return nil, fmt.Errorf("initial wait: %w", err)
	}
	opts := syscall.PTRACE_O_TRACESYSGOOD | syscall.PTRACE_O_TRACECLONE | syscall.PTRACE_O_TRACEFORK | syscall.PTRACE_O_TRACEVFORK | 0x100000 /* EXITKILL */
	if err := syscall.PtraceSetOptions(pid, opts); err != nil {
		_ = syscall.Kill(pid, syscall.SIGKILL)
		return nil, fmt.Errorf("setoptions: %w", err)
	}
	threads := map[int]*threadState{pid: {}}
	fds := map[int64]string{}
	stop := 0
	kill := func() {
		res.Killed = true
		_ = syscall.Kill(pid, syscall.SIGKILL)
	}
	watchedPath := func(p string) bool { return plan.Watch != "" && strings.HasPrefix(p, plan.Watch) }
	_ = syscall.PtraceSyscall(pid, 0)
	for {
		tid, err := syscall.Wait4(-1, &ws, syscall.WALL, nil)
		if err != nil {
			if err == syscall.EINTR {
				continue
			}
			break
		}
		if ws.Exited() || ws.Signaled() {
			delete(threads, tid)
			if tid == pid {
				if ws.Exited() {
					res.ExitCode = ws.ExitStatus()
				} else {
					res.ExitCode = -1
					res.Signal = ws.Signal().String()
				}
				// reap the rest
				for len(threads) > 0 {
					t2, e2 := syscall.Wait4(-1, &ws, syscall.WALL, nil)
					if e2 != nil {
						break
					}
					delete(threads, t2)
				}
				break
			}
			continue
		}
		if !ws.Stopped() {
			continue
		}
		ts := threads[tid]
		if ts == nil {
			ts = &threadState{}
			threads[tid] = ts
		}
		sig := ws.StopSignal()
		switch {
		case sig == syscall.SIGTRAP|0x80: // syscall stop
			var regs syscall.PtraceRegs
			if err := syscall.PtraceGetRegs(tid, &regs); err != nil {
				_ = syscall.PtraceSyscall(tid, 0)
				continue
			}
			if !ts.inSyscall {
				ts.inSyscall = true
				ts.sysno = regs.Orig_rax
				ts.watched, ts.path, ts.torn, ts.voided = false, "", false, false
				ev := Event{TID: tid, Name: names[ts.sysno], Entry: true}
				switch ts.sysno {
				case sysOpenat, sysMkdirat, sysNewfstatat, sysUnlinkat, sysFchmodat, sysStatx, sysOpenat2:
					ev.Path = peekString(tid, uintptr(regs.Rsi))
					ev.Flags = regs.Rdx
				case sysOpen, sysStat, sysLstat, sysMkdir, sysUnlink:
					ev.Path = peekString(tid, uintptr(regs.Rdi))
					ev.Flags = regs.Rsi
				case sysRename, sysLink, sysSymlink:
					ev.Path = peekString(tid, uintptr(regs.Rdi))
					ev.Path2 = peekString(tid, uintptr(regs.Rsi))
				case sysRenameat, sysRenameat2, sysLinkat:
					ev.Path = peekString(tid, uintptr(regs.Rsi))
					ev.Path2 = peekString(tid, uintptr(regs.R10))
				case sysSymlinkat:
					ev.Path = peekString(tid, uintptr(regs.Rdi))
					ev.Path2 = peekString(tid, uintptr(regs.Rdx))
				case sysWrite, sysPwrite64, sysRead, sysClose, sysFsync, sysFdatasync, sysFtruncate, sysFchmod, sysWritev, sysPwritev, sysSendfile, sysCopyFileRange, sysFallocate:
					ev.FD = int64(regs.Rdi)
					if ts.sysno == sysSendfile {
						ev.FD = int64(regs.Rdi) // out_fd
					}
					if ts.sysno == sysCopyFileRange {
						ev.FD = int64(regs.Rdx) // fd_out
					}
					ev.Path = fds[ev.FD]
					ev.Len = regs.Rdx
				}
				if ev.Name == "" {
					// not a file-system syscall we know by name: cannot touch the directory by path
					_ = syscall.PtraceSyscall(tid, 0)
					continue
				}
				ts.path = ev.Path
				ts.watched = watchedPath(ev.Path) || watchedPath(ev.Path2)
				// confinement log: everything that creates or changes a name
				switch ts.sysno {
				case sysMkdirat, sysMkdir, sysRename, sysRenameat, sysRenameat2, sysLink, sysLinkat, sysSymlink, sysSymlinkat, sysUnlink, sysUnlinkat:
					res.AllPaths = append(res.AllPaths, ev.Name+" "+ev.Path+" "+ev.Path2)
				case sysOpenat, sysOpen, sysOpenat2:
					fl := ev.Flags
					if ts.sysno == sysOpen {
						fl = regs.Rsi
					}
					if fl&(syscall.O_WRONLY|syscall.O_RDWR|syscall.O_CREAT) != 0 {
						res.AllPaths = append(res.AllPaths, ev.Name+" "+ev.Path)
					}
				}
				if ts.watched {
					if !understood[ts.sysno] || opaque[ts.sysno] {
						res.Unknown = append(res.Unknown, ev.Name)
					}
					ev.Stop = stop
					res.Events = append(res.Events, ev)
					cur := stop
					stop++
					if cur == plan.KillAt {
						kill()
						continue
					}
					if cur == plan.TornAt && (ts.sysno == sysWrite || ts.sysno == sysPwrite64) {
						regs.Rdx = plan.TornLen
						_ = syscall.PtraceSetRegs(tid, &regs)
						ts.torn = true
						res.Injected = true
					}
					if cur == plan.ErrnoAt {
						regs.Orig_rax = ^uint64(0) // void the syscall
						_ = syscall.PtraceSetRegs(tid, &regs)
						ts.voided = true
						res.Injected = true
					}
				}
			} else {
				ts.inSyscall = false
				if ts.voided {
					regs.Rax = uint64(-int64(plan.Errno))
					_ = syscall.PtraceSetRegs(tid, &regs)
				}
				ret := int64(regs.Rax)
				if (ts.sysno == sysOpenat || ts.sysno == sysOpen || ts.sysno == sysOpenat2) && ret >= 0 && !ts.voided {
					fds[ret] = ts.path
				}
				if ts.sysno == sysClose {
					delete(fds, int64(regs.Rdi))
				}
				if ts.watched {
					ev := Event{TID: tid, Name: names[ts.sysno], Entry: false, Path: ts.path, Ret: ret, Stop: stop}
					res.Events = append(res.Events, ev)
					cur := stop
					stop++
					if ts.torn || cur == plan.KillAt {
						kill()
						continue
					}
				}
			}
			_ = syscall.PtraceSyscall(tid, 0)
		case sig == syscall.SIGTRAP:
			// clone/fork/exec events: the new task is attached automatically
			_ = syscall.PtraceSyscall(tid, 0)
		case sig == syscall.SIGSTOP:
			// a freshly attached thread stops with SIGSTOP
			_ = syscall.PtraceSyscall(tid, 0)
		default:
			// deliver other signals (SIGURG from the Go scheduler, ...)
			_ = syscall.PtraceSyscall(tid, int(sig))
		}
	}
	_ = cmd.Wait()
	return res, nil
}

var _ = os.Getpid
