// Package cold holds the cold-start trial of C17. It must not import anything that calls into the reader or writer
// package at init time (the beta SPDX 3 driver does), or the process has no cold start to test.
package cold

import (
	"bytes"
	"fmt"
	"io"
	"math/rand"
	"os"
	"runtime"
	"strings"
	"sync"

	"github.com/protobom/protobom/pkg/formats"
	"github.com/protobom/protobom/pkg/native"
	"github.com/protobom/protobom/pkg/reader"
	"github.com/protobom/protobom/pkg/sbom"
	"github.com/protobom/protobom/pkg/writer"
	"google.golang.org/protobuf/proto"
	"verifharness/internal/gen"
)

type fakeUnser struct{ id int }

func (f *fakeUnser) Unserialize(io.Reader, *native.UnserializeOptions, interface{}) (*sbom.Document, error) {
	return sbom.NewDocument(), nil
}

type fakeSer struct{ id int }

func (f *fakeSer) Serialize(*sbom.Document, *native.SerializeOptions, interface{}) (interface{}, error) {
	return f.id, nil
}

func (f *fakeSer) Render(_ interface{}, w io.Writer, _ *native.RenderOptions, _ interface{}) error {
	_, err := w.Write([]byte("x"))
	return err
}

type nopWC struct{ io.Writer }

func (nopWC) Close() error { return nil }

// Main is the whole program: one trial, seed in argv[1].
func Main() {
	seed := int64(1)
	if len(os.Args) > 1 {
		fmt.Sscan(os.Args[1], &seed)
	}
	if msg := c17ColdStartTrial(rand.New(rand.NewSource(seed))); msg != "" {
		fmt.Println("COLD-FAIL " + msg)
		os.Exit(1)
	}
	fmt.Println("COLD-OK")
}

type c17Task = struct {
	name string
	fn   func() string
}

func tasks0fn(ts []c17Task, name string) func() string {
	for _, t := range ts {
		if t.name == name {
			return t.fn
		}
	}
	panic("no such cold-start task: " + name)
}

func tasks0(ts []c17Task, name string) (string, func() string) { return name, tasks0fn(ts, name) }

func c17ColdStartTrial(rnd *rand.Rand) string {
	spdxIn, cdxIn := []byte(gen.RepDocs[0].JSON), []byte(gen.RepDocs[1].JSON)
	for _, d := range gen.RepDocs {
		if strings.Contains(d.JSON, "spdxVersion") {
			spdxIn = []byte(d.JSON)
		} else {
			cdxIn = []byte(d.JSON)
		}
	}
	doc := &sbom.Document{Metadata: &sbom.Metadata{Id: "urn:uuid:cold", Version: "1"}, NodeList: &sbom.NodeList{
		Nodes: []*sbom.Node{{Id: "r", Name: "r", Version: "1"}, {Id: "x", Name: "x", Version: "1"}}, Edges: []*sbom.Edge{{From: "r", Type: sbom.Edge_contains, To: []string{"x"}}}, RootElements: []string{"r"}}}
	mineS, mineU := &fakeSer{77}, &fakeUnser{78}
	keyS, keyU := formats.Format("application/x-verif-cold;k=s"), formats.Format("application/x-verif-cold;k=u")
	tasks := []c17Task{
		{"writer.GetFormatSerializer(SPDX23JSON)", func() string {
			if s, err := writer.GetFormatSerializer(formats.SPDX23JSON); err != nil || s == nil {
				return fmt.Sprintf("no driver: %v", err)
			}
			return ""
		}},
		{"writer.GetFormatSerializer(CDX15JSON)", func() string {
			if s, err := writer.GetFormatSerializer(formats.CDX15JSON); err != nil || s == nil {
				return fmt.Sprintf("no driver: %v", err)
			}
			return ""
		}},
		{"writer.RegisterSerializer(own format)", func() string { writer.RegisterSerializer(keyS, mineS); return "" }},
		{"writer.New(WithFormat(CDX15JSON)).WriteStream", func() string {
			var buf bytes.Buffer
			if err := writer.New(writer.WithFormat(formats.CDX15JSON)).WriteStream(proto.Clone(doc).(*sbom.Document), nopWC{&buf}); err != nil {
				return "write failed: " + err.Error()
			}
			return ""
		}},
		{"writer.New(WithFormat(SPDX23JSON)).WriteStream", func() string {
			var buf bytes.Buffer
			if err := writer.New(writer.WithFormat(formats.SPDX23JSON)).WriteStream(proto.Clone(doc).(*sbom.Document), nopWC{&buf}); err != nil {
				return "write failed: " + err.Error()
			}
			return ""
		}},
		{"reader.GetFormatUnserializer(SPDX23JSON)", func() string {
			if u, err := reader.GetFormatUnserializer(formats.SPDX23JSON); err != nil || u == nil {
				return fmt.Sprintf("no driver: %v", err)
			}
			return ""
		}},
		{"reader.RegisterUnserializer(own format)", func() string { reader.RegisterUnserializer(keyU, mineU); return "" }},
		{"reader.New().ParseStream(SPDX)", func() string {
			if d, err := reader.New().ParseStream(bytes.NewReader(spdxIn)); err != nil || d == nil {
				return fmt.Sprintf("parse failed: %v", err)
			}
			return ""
		}},
		{"reader.New().ParseStream(CycloneDX)", func() string {
			if d, err := reader.New().ParseStream(bytes.NewReader(cdxIn)); err != nil || d == nil {
				return fmt.Sprintf("parse failed: %v", err)
			}
			return ""
		}},
	}
	rnd.Shuffle(len(tasks), func(i, j int) { tasks[i], tasks[j] = tasks[j], tasks[i] })
	// The trial kind decides who takes part: all goroutines make the SAME first call (the lazily initialised state of
	// one package is then hit by all of them within microseconds), or the nine tasks are mixed. The built-in format
	// looked up is the one a package registers last.
	same := func(name string, fn func() string) {
		for i := range tasks {
			tasks[i].name, tasks[i].fn = name, fn
		}
	}
	kind := rnd.Intn(5)
	if v := os.Getenv("VCHECK_COLD_KIND"); v != "" {
		fmt.Sscan(v, &kind)
	}
	switch kind {
	case 0:
		same(tasks0(tasks, "writer.GetFormatSerializer(SPDX23JSON)"))
	case 1:
		same(tasks0(tasks, "reader.GetFormatUnserializer(SPDX23JSON)"))
	case 2:
		reg := tasks0fn(tasks, "writer.RegisterSerializer(own format)")
		look := tasks0fn(tasks, "writer.GetFormatSerializer(CDX15JSON)")
		for i := range tasks {
			tasks[i].name, tasks[i].fn = "writer.GetFormatSerializer(CDX15JSON)", look
		}
		tasks[0].name, tasks[0].fn = "writer.RegisterSerializer(own format)", reg
	case 3:
		reg := tasks0fn(tasks, "reader.RegisterUnserializer(own format)")
		look := tasks0fn(tasks, "reader.GetFormatUnserializer(SPDX23JSON)")
		for i := range tasks {
			tasks[i].name, tasks[i].fn = "reader.GetFormatUnserializer(SPDX23JSON)", look
		}
		tasks[0].name, tasks[0].fn = "reader.RegisterUnserializer(own format)", reg
	}
	const G = 12
	res := make([]string, G)
	var wg, start sync.WaitGroup
	start.Add(1)
	for i := 0; i < G; i++ {
		wg.Add(1)
		go func(i int) {
			defer wg.Done()
			defer func() {
				if rec := recover(); rec != nil {
					res[i] = fmt.Sprintf("panic: %v", rec)
				}
			}()
			start.Wait()
			res[i] = tasks[i%len(tasks)].fn()
		}(i)
	}
	runtime.Gosched()
	start.Done()
	wg.Wait()
	for i := 0; i < G; i++ {
		if res[i] != "" {
			return tasks[i%len(tasks)].name + "| returned " + res[i] + " (sequentially it succeeds)"
		}
	}
	ranS, ranU := false, false
	for i := 0; i < G; i++ {
		switch tasks[i%len(tasks)].name {
		case "writer.RegisterSerializer(own format)":
			ranS = true
		case "reader.RegisterUnserializer(own format)":
			ranU = true
		}
	}
	if !ranS {
		writer.RegisterSerializer(keyS, mineS)
	}
	if !ranU {
		reader.RegisterUnserializer(keyU, mineU)
	}
	if s, err := writer.GetFormatSerializer(keyS); err != nil || s != native.Serializer(mineS) {
		return fmt.Sprintf("registration-lost:writer| a serializer registered during the concurrent first use is not the one returned afterwards (%v, %v)", s, err)
	}
	if u, err := reader.GetFormatUnserializer(keyU); err != nil || u != native.Unserializer(mineU) {
		return fmt.Sprintf("registration-lost:reader| an unserializer registered during the concurrent first use is not the one returned afterwards (%v, %v)", u, err)
	}
	return ""
}
