// Package jsonx is an order- and duplicate-preserving JSON tree with seeded re-encoders
// (white space, member order, escape modes) and schema-fault mutators. It has its own
// tokenizer so that number literals and duplicate members survive verbatim.
package jsonx

import (
	"fmt"
	"math/rand"
	"strconv"
	"strings"
	"unicode/utf16"
	"unicode/utf8"
)

type Kind int

const (
	Null Kind = iota
	Bool
	Number
	String
	Array
	Object
)

type Member struct {
	Key string
	Val *Value
}

type Value struct {
	Kind    Kind
	B       bool
	Num     string // literal, verbatim
	Str     string // decoded
	Elems   []*Value
	Members []Member
	// RawPos marks a string that a consumer reads from the raw bytes (never re-encoded with optional escapes
	// when EncOpts.KeepRaw is set).
	RawPos bool
}

func S(s string) *Value           { return &Value{Kind: String, Str: s} }
func N(lit string) *Value         { return &Value{Kind: Number, Num: lit} }
func Bv(b bool) *Value            { return &Value{Kind: Bool, B: b} }
func Nul() *Value                 { return &Value{Kind: Null} }
func Arr(e ...*Value) *Value      { return &Value{Kind: Array, Elems: e} }
func Obj(m ...Member) *Value      { return &Value{Kind: Object, Members: m} }
func M(k string, v *Value) Member { return Member{k, v} }

func (v *Value) Get(key string) *Value {
	if v == nil || v.Kind != Object {
		return nil
	}
	for _, m := range v.Members {
		if m.Key == key {
			return m.Val
		}
	}
	return nil
}

func (v *Value) Set(key string, val *Value) {
	for i, m := range v.Members {
		if m.Key == key {
			v.Members[i].Val = val
			return
		}
	}
	v.Members = append(v.Members, Member{key, val})
}

func (v *Value) Del(key string) {
	out := v.Members[:0]
	for _, m := range v.Members {
		if m.Key != key {
			out = append(out, m)
		}
	}
	v.Members = out
}

func (v *Value) Clone() *Value {
	if v == nil {
		return nil
	}
	c := *v
	if v.Elems != nil {
		c.Elems = make([]*Value, len(v.Elems))
		for i, e := range v.Elems {
			c.Elems[i] = e.Clone()
		}
	}
	if v.Members != nil {
		c.Members = make([]Member, len(v.Members))
		for i, m := range v.Members {
			c.Members[i] = Member{m.Key, m.Val.Clone()}
		}
	}
	return &c
}

// ------------------------------------------------------------------ parsing

type parser struct {
	b []byte
	i int
}

func Parse(b []byte) (*Value, error) {
	p := &parser{b: b}
	p.ws()
	v, err := p.value(0)
	if err != nil {
		return nil, err
	}
	p.ws()
	if p.i != len(p.b) {
		return nil, fmt.Errorf("trailing data at %d", p.i)
	}
	return v, nil
}

func (p *parser) ws() {
	for p.i < len(p.b) && (p.b[p.i] == ' ' || p.b[p.i] == '\n' || p.b[p.i] == '\t' || p.b[p.i] == '\r') {
		p.i++
	}
}

func (p *parser) value(depth int) (*Value, error) {
	if depth > 20000 {
		return nil, fmt.Errorf("too deep")
	}
	if p.i >= len(p.b) {
		return nil, fmt.Errorf("unexpected end")
	}
	switch c := p.b[p.i]; {
	case c == '{':
		p.i++
		v := &Value{Kind: Object, Members: []Member{}}
		p.ws()
		if p.i < len(p.b) && p.b[p.i] == '}' {
			p.i++
			return v, nil
		}
		for {
			p.ws()
			if p.i >= len(p.b) || p.b[p.i] != '"' {
				return nil, fmt.Errorf("expected key at %d", p.i)
			}
			k, err := p.str()
			if err != nil {
				return nil, err
			}
			p.ws()
			if p.i >= len(p.b) || p.b[p.i] != ':' {
				return nil, fmt.Errorf("expected colon at %d", p.i)
			}
			p.i++
			p.ws()
			val, err := p.value(depth + 1)
			if err != nil {
				return nil, err
			}
			v.Members = append(v.Members, Member{k, val})
			p.ws()
			if p.i >= len(p.b) {
				return nil, fmt.Errorf("unexpected end")
			}
			if p.b[p.i] == ',' {
				p.i++
				continue
			}
			if p.b[p.i] == '}' {
				p.i++
				return v, nil
			}
			return nil, fmt.Errorf("expected , or } at %d", p.i)
		}
	case c == '[':
		p.i++
		v := &Value{Kind: Array, Elems: []*Value{}}
		p.ws()
		if p.i < len(p.b) && p.b[p.i] == ']' {
			p.i++
			return v, nil
		}
		for {
			p.ws()
			e, err := p.value(depth + 1)
			if err != nil {
				return nil, err
			}
			v.Elems = append(v.Elems, e)
			p.ws()
			if p.i >= len(p.b) {
				return nil, fmt.Errorf("unexpected end")
			}
			if p.b[p.i] == ',' {
				p.i++
				continue
			}
			if p.b[p.i] == ']' {
				p.i++
				return v, nil
			}
			return nil, fmt.Errorf("expected , or ] at %d", p.i)
		}
	case c == '"':
		s, err := p.str()
		if err != nil {
			return nil, err
		}
		return &Value{Kind: String, Str: s}, nil
	case c == 't' && strings.HasPrefix(string(p.b[p.i:]), "true"):
		p.i += 4
		return &Value{Kind: Bool, B: true}, nil
	case c == 'f' && strings.HasPrefix(string(p.b[p.i:]), "false"):
		p.i += 5
		return &Value{Kind: Bool}, nil
	case c == 'n' && strings.HasPrefix(string(p.b[p.i:]), "null"):
		p.i += 4
		return &Value{Kind: Null}, nil
	case c == '-' || (c >= '0' && c <= '9'):
		st := p.i
		for p.i < len(p.b) && strings.ContainsRune("+-0123456789.eE", rune(p.b[p.i])) {
			p.i++
		}
		return &Value{Kind: Number, Num: string(p.b[st:p.i])}, nil
	}
	return nil, fmt.Errorf("unexpected byte %q at %d", p.b[p.i], p.i)
}

func (p *parser) str() (string, error) {
	p.i++ // opening quote
	var sb strings.Builder
	for p.i < len(p.b) {
		c := p.b[p.i]
		switch {
		case c == '"':
			p.i++
			return sb.String(), nil
		case c == '\\':
			if p.i+1 >= len(p.b) {
				return "", fmt.Errorf("bad escape")
			}
			p.i++
			switch p.b[p.i] {
			case '"', '\\', '/':
				sb.WriteByte(p.b[p.i])
			case 'b':
				sb.WriteByte('\b')
			case 'f':
				sb.WriteByte('\f')
			case 'n':
				sb.WriteByte('\n')
			case 'r':
				sb.WriteByte('\r')
			case 't':
				sb.WriteByte('\t')
			case 'u':
				if p.i+4 >= len(p.b) {
					return "", fmt.Errorf("bad \\u")
				}
				u, err := strconv.ParseUint(string(p.b[p.i+1:p.i+5]), 16, 16)
				if err != nil {
					return "", err
				}
				p.i += 4
				r := rune(u)
				if utf16.IsSurrogate(r) && p.i+6 < len(p.b) && p.b[p.i+1] == '\\' && p.b[p.i+2] == 'u' {
					u2, err := strconv.ParseUint(string(p.b[p.i+3:p.i+7]), 16, 16)
					if err == nil {
						if dr := utf16.DecodeRune(r, rune(u2)); dr != utf8.RuneError {
							r = dr
							p.i += 6
						}
					}
				}
				sb.WriteRune(r)
			default:
				return "", fmt.Errorf("bad escape %q", p.b[p.i])
			}
			p.i++
		default:
			sb.WriteByte(c)
			p.i++
		}
	}
	return "", fmt.Errorf("unterminated string")
}

// ------------------------------------------------------------------ encoding

type EscapeMode int

const (
	EscMinimal  EscapeMode = iota // only what JSON requires
	EscUnicode                    // every non-ASCII rune as \uXXXX (surrogate pairs for astral)
	EscAllFirst                   // additionally the first ASCII letter of every string as \u00XX
	EscSolidus                    // "/" written as "\/"
)

type EncOpts struct {
	Indent  int  // <0: compact
	RandWS  bool // random white space between tokens
	Shuffle bool // shuffle object members recursively
	Esc     EscapeMode
	R       *rand.Rand
	// EscKeys: apply the escape mode to member names as well
	EscKeys bool
	// KeepRaw: strings marked RawPos are written with minimal escaping whatever Esc says
	KeepRaw bool
}

// Count returns the number of values in the tree, stopping early once limit is exceeded.
func Count(v *Value, limit int) int {
	n := 0
	var walk func(v *Value)
	walk = func(v *Value) {
		if v == nil || n > limit {
			return
		}
		n++
		for _, e := range v.Elems {
			walk(e)
		}
		for _, m := range v.Members {
			walk(m.Val)
		}
	}
	walk(v)
	return n
}

func Encode(v *Value, o EncOpts) []byte {
	var sb strings.Builder
	if o.RandWS && o.R != nil {
		// white space is insignificant before and after the top-level value too
		if o.R.Intn(2) == 0 {
			sb.WriteByte(" \n\t\r"[o.R.Intn(4)])
		}
		ws(&sb, o)
	}
	enc(&sb, v, o, 0)
	if o.RandWS {
		ws(&sb, o)
	}
	if o.Indent >= 0 {
		sb.WriteByte('\n')
	}
	return []byte(sb.String())
}

func ws(sb *strings.Builder, o EncOpts) {
	if o.RandWS && o.R != nil {
		for i := o.R.Intn(3); i > 0; i-- {
			sb.WriteByte(" \n\t\r"[o.R.Intn(4)])
		}
	}
}

func nl(sb *strings.Builder, o EncOpts, depth int) {
	if o.RandWS {
		ws(sb, o)
		return
	}
	if o.Indent >= 0 {
		sb.WriteByte('\n')
		sb.WriteString(strings.Repeat(" ", o.Indent*depth))
	}
}

func enc(sb *strings.Builder, v *Value, o EncOpts, depth int) {
	switch v.Kind {
	case Null:
		sb.WriteString("null")
	case Bool:
		if v.B {
			sb.WriteString("true")
		} else {
			sb.WriteString("false")
		}
	case Number:
		sb.WriteString(v.Num)
	case String:
		if v.RawPos && o.KeepRaw {
			encStr(sb, v.Str, EscMinimal)
		} else {
			encStr(sb, v.Str, o.Esc)
		}
	case Array:
		sb.WriteByte('[')
		for i, e := range v.Elems {
			if i > 0 {
				sb.WriteByte(',')
			}
			nl(sb, o, depth+1)
			enc(sb, e, o, depth+1)
		}
		if len(v.Elems) > 0 {
			nl(sb, o, depth)
		}
		sb.WriteByte(']')
	case Object:
		ms := v.Members
		if o.Shuffle && o.R != nil {
			ms = append([]Member{}, ms...)
			o.R.Shuffle(len(ms), func(i, j int) { ms[i], ms[j] = ms[j], ms[i] })
		}
		sb.WriteByte('{')
		for i, m := range ms {
			if i > 0 {
				sb.WriteByte(',')
			}
			nl(sb, o, depth+1)
			if o.EscKeys {
				encStr(sb, m.Key, o.Esc)
			} else {
				encStr(sb, m.Key, EscMinimal)
			}
			ws(sb, o)
			sb.WriteByte(':')
			if o.Indent >= 0 && !o.RandWS {
				sb.WriteByte(' ')
			}
			ws(sb, o)
			enc(sb, m.Val, o, depth+1)
		}
		if len(ms) > 0 {
			nl(sb, o, depth)
		}
		sb.WriteByte('}')
	}
}

func encStr(sb *strings.Builder, s string, mode EscapeMode) {
	sb.WriteByte('"')
	first := true
	for i := 0; i < len(s); {
		r, size := utf8.DecodeRuneInString(s[i:])
		if r == utf8.RuneError && size == 1 {
			// invalid UTF-8: pass the byte through (hostile inputs)
			sb.WriteByte(s[i])
			i++
			continue
		}
		i += size
		switch {
		case r == '"':
			sb.WriteString(`\"`)
		case r == '\\':
			sb.WriteString(`\\`)
		case r == '\n':
			sb.WriteString(`\n`)
		case r == '\r':
			sb.WriteString(`\r`)
		case r == '\t':
			sb.WriteString(`\t`)
		case r < 0x20:
			fmt.Fprintf(sb, `\u%04x`, r)
		case r == '/' && mode == EscSolidus:
			sb.WriteString(`\/`)
		case r >= 0x80 && (mode == EscUnicode || mode == EscAllFirst):
			if r >= 0x10000 {
				r1, r2 := utf16.EncodeRune(r)
				fmt.Fprintf(sb, `\u%04x\u%04x`, r1, r2)
			} else {
				fmt.Fprintf(sb, `\u%04x`, r)
			}
		case mode == EscAllFirst && first && ((r >= 'a' && r <= 'z') || (r >= 'A' && r <= 'Z')):
			fmt.Fprintf(sb, `\u%04x`, r)
			first = false
		default:
			sb.WriteRune(r)
		}
	}
	sb.WriteByte('"')
}

// ------------------------------------------------------------------ paths and faults

// Path addresses a value: member names and array indices.
type Path []any

func (p Path) String() string {
	var sb strings.Builder
	for _, s := range p {
		switch t := s.(type) {
		case string:
			sb.WriteString("/" + t)
		case int:
			fmt.Fprintf(&sb, "[%d]", t)
		}
	}
	if sb.Len() == 0 {
		return "/"
	}
	return sb.String()
}

// Paths lists every value of the tree (first array element only when firstElemOnly), parents before children.
func Paths(v *Value, maxElems int) []Path {
	var out []Path
	var walk func(v *Value, p Path)
	walk = func(v *Value, p Path) {
		out = append(out, append(Path{}, p...))
		switch v.Kind {
		case Object:
			for _, m := range v.Members {
				walk(m.Val, append(p, m.Key))
			}
		case Array:
			for i, e := range v.Elems {
				if i >= maxElems {
					break
				}
				walk(e, append(p, i))
			}
		}
	}
	walk(v, nil)
	return out
}

// At returns the value at p and its parent (nil for the root).
func At(root *Value, p Path) (val, parent *Value) {
	val = root
	for _, s := range p {
		parent = val
		switch t := s.(type) {
		case string:
			val = val.Get(t)
		case int:
			if val.Kind != Array || t >= len(val.Elems) {
				return nil, nil
			}
			val = val.Elems[t]
		}
		if val == nil {
			return nil, nil
		}
	}
	return val, parent
}

func replace(root *Value, p Path, nv *Value) *Value {
	if len(p) == 0 {
		return nv
	}
	_, parent := At(root, p)
	if parent == nil {
		return root
	}
	switch t := p[len(p)-1].(type) {
	case string:
		for i, m := range parent.Members {
			if m.Key == t {
				parent.Members[i].Val = nv
				break
			}
		}
	case int:
		parent.Elems[t] = nv
	}
	return root
}

// Faults: the schema faults applied at a path.
var Faults = []string{"null", "string", "number", "bool", "array", "object", "empty", "absent", "duplicate", "oversized", "negative", "nested-self", "prefix-half", "prefix-one", "suffix-cut", "null-run-head", "null-run-inside", "all-null", "lower-case", "title-case", "upper-case"}

// ApplyFault returns a mutated deep copy of root (root itself is untouched). ok=false when the fault does not apply at p.
func ApplyFault(root *Value, p Path, fault string, k int) (*Value, bool) {
	c := root.Clone()
	val, parent := At(c, p)
	if val == nil {
		return nil, false
	}
	switch fault {
	case "null":
		return replace(c, p, Nul()), true
	case "string":
		if val.Kind == String {
			return replace(c, p, S("")), true
		}
		return replace(c, p, S("x")), true
	case "number":
		return replace(c, p, N("42")), true
	case "bool":
		return replace(c, p, Bv(true)), true
	case "array":
		if val.Kind == Array {
			return replace(c, p, Arr(Nul())), true
		}
		return replace(c, p, Arr(val.Clone())), true
	case "object":
		if val.Kind == Object {
			return replace(c, p, Obj(M("unexpected", Nul()))), true
		}
		return replace(c, p, Obj(M("value", val.Clone()))), true
	case "empty":
		switch val.Kind {
		case Object:
			return replace(c, p, Obj()), true
		case Array:
			return replace(c, p, Arr()), true
		case String:
			return replace(c, p, S("")), true
		}
		return nil, false
	case "absent":
		if parent == nil {
			return nil, false
		}
		switch t := p[len(p)-1].(type) {
		case string:
			parent.Del(t)
		case int:
			parent.Elems = append(parent.Elems[:t], parent.Elems[t+1:]...)
		}
		return c, true
	case "duplicate":
		if parent == nil {
			return nil, false
		}
		switch t := p[len(p)-1].(type) {
		case string:
			parent.Members = append(parent.Members, Member{t, val.Clone()})
		case int:
			parent.Elems = append(parent.Elems, val.Clone())
		}
		return c, true
	case "oversized":
		n := 1 << 10
		if k > 0 {
			n = k
		}
		switch val.Kind {
		case String:
			return replace(c, p, S(strings.Repeat(val.Str+"A", n))), true
		case Array:
			if len(val.Elems) == 0 {
				return nil, false
			}
			for i := 0; i < n; i++ {
				val.Elems = append(val.Elems, val.Elems[0].Clone())
			}
			return c, true
		case Number:
			return replace(c, p, N("123456789012345678901234567890123456789012345678901234567890")), true
		}
		return nil, false
	case "null-run-head", "null-run-inside", "all-null":
		// runs of adjacent null entries in an array (a single null is the "null" fault at an element path): two at
		// the head, three after the first element, or every element null
		if val.Kind != Array {
			return nil, false
		}
		switch fault {
		case "null-run-head":
			val.Elems = append([]*Value{Nul(), Nul()}, val.Elems...)
		case "null-run-inside":
			if len(val.Elems) == 0 {
				return nil, false
			}
			rest := append([]*Value{}, val.Elems[1:]...)
			val.Elems = append([]*Value{val.Elems[0], Nul(), Nul(), Nul()}, rest...)
		default:
			if len(val.Elems) < 2 {
				val.Elems = []*Value{Nul(), Nul()}
			} else {
				for i := range val.Elems {
					val.Elems[i] = Nul()
				}
			}
		}
		return c, true
	case "prefix-half", "prefix-one", "suffix-cut":
		// a string cut short: its first half, its first character, or all but its last character (a date without
		// its time, a version without its patch level, an identifier without its prefix's tail)
		if val.Kind != String {
			return nil, false
		}
		rs := []rune(val.Str)
		if len(rs) < 2 {
			return nil, false
		}
		switch fault {
		case "prefix-half":
			rs = rs[:len(rs)/2]
		case "prefix-one":
			rs = rs[:1]
		default:
			rs = rs[:len(rs)-1]
		}
		return replace(c, p, S(string(rs))), true
	case "lower-case", "title-case", "upper-case":
		// the same string in another letter case (an enumeration word, a media type, a prefix written differently)
		if val.Kind != String {
			return nil, false
		}
		var ns string
		switch fault {
		case "lower-case":
			ns = strings.ToLower(val.Str)
		case "upper-case":
			ns = strings.ToUpper(val.Str)
		default:
			lo := strings.ToLower(val.Str)
			if lo != "" {
				ns = strings.ToUpper(lo[:1]) + lo[1:]
			}
		}
		if ns == val.Str {
			return nil, false
		}
		return replace(c, p, S(ns)), true
	case "negative":
		if val.Kind == Number {
			return replace(c, p, N("-1.5e3")), true
		}
		return nil, false
	case "nested-self":
		// an object nested into itself under each of its array-valued members (e.g. components in components)
		if val.Kind != Object {
			return nil, false
		}
		depth := 8
		if k > 0 {
			depth = k
		}
		applied := false
		for i, m := range val.Members {
			if m.Val.Kind == Array {
				inner := val.Clone()
				for d := 0; d < depth; d++ {
					wrap := val.Clone()
					for j, mm := range wrap.Members {
						if mm.Key == m.Key {
							wrap.Members[j].Val = Arr(inner)
						}
					}
					inner = wrap
				}
				val.Members[i].Val = Arr(inner)
				applied = true
				break
			}
		}
		return c, applied
	}
	return nil, false
}
