package gen

import (
	"fmt"
	"math/rand"
	"strings"

	"google.golang.org/protobuf/reflect/protoreflect"
)

// Step navigates from a message into one of its fields (Idx: list index, -1 for singular message fields).
type Step struct {
	FD  protoreflect.FieldDescriptor
	Idx int
}

// Mut is one mutation site found by reflection: a path to a message plus an action on one of its fields.
type Mut struct {
	Path   []Step
	FD     protoreflect.FieldDescriptor
	Action string // set | set0 | append | mapset | mapnew | mapdel | clear
}

func (m Mut) String() string {
	var b strings.Builder
	for _, s := range m.Path {
		if s.Idx >= 0 {
			fmt.Fprintf(&b, "%s[%d].", s.FD.Name(), s.Idx)
		} else {
			fmt.Fprintf(&b, "%s.", s.FD.Name())
		}
	}
	fmt.Fprintf(&b, "%s:%s", m.FD.Name(), m.Action)
	return b.String()
}

// FieldPath is the dotted path without indices and action (for per-field coverage).
func (m Mut) FieldPath() string {
	var b strings.Builder
	for _, s := range m.Path {
		fmt.Fprintf(&b, "%s.", s.FD.Name())
	}
	b.WriteString(string(m.FD.Name()))
	return b.String()
}

// EnumerateMuts lists every mutation site of message type md down to the given message-nesting depth.
func EnumerateMuts(md protoreflect.MessageDescriptor, depth int) []Mut {
	var out []Mut
	var walk func(md protoreflect.MessageDescriptor, path []Step, depth int)
	walk = func(md protoreflect.MessageDescriptor, path []Step, depth int) {
		fds := md.Fields()
		for i := 0; i < fds.Len(); i++ {
			fd := fds.Get(i)
			p := append([]Step(nil), path...)
			switch {
			case fd.IsMap():
				for _, a := range []string{"mapset", "mapnew", "mapdel"} {
					out = append(out, Mut{Path: p, FD: fd, Action: a})
				}
			case fd.IsList():
				out = append(out, Mut{Path: p, FD: fd, Action: "set0"}, Mut{Path: p, FD: fd, Action: "append"}, Mut{Path: p, FD: fd, Action: "clear"})
				if fd.Kind() == protoreflect.MessageKind && depth > 0 {
					walk(fd.Message(), append(p, Step{fd, 0}), depth-1)
				}
			case fd.Kind() == protoreflect.MessageKind:
				out = append(out, Mut{Path: p, FD: fd, Action: "clear"})
				if depth > 0 {
					walk(fd.Message(), append(p, Step{fd, -1}), depth-1)
				}
			default:
				out = append(out, Mut{Path: p, FD: fd, Action: "set"})
			}
		}
	}
	walk(md, nil, depth)
	return out
}

// Navigate follows the path; ok=false when the instance lacks an element on the way.
func Navigate(root protoreflect.Message, path []Step) (protoreflect.Message, bool) {
	m := root
	for _, s := range path {
		if s.Idx >= 0 {
			l := m.Get(s.FD).List()
			if l.Len() <= s.Idx {
				return nil, false
			}
			m = l.Get(s.Idx).Message()
		} else {
			if !m.Has(s.FD) {
				return nil, false
			}
			m = m.Mutable(s.FD).Message()
		}
		if !m.IsValid() {
			return nil, false
		}
	}
	return m, true
}

// differentScalar returns a value different from cur for the field kind; variant distinguishes the two sides.
func differentScalar(fd protoreflect.FieldDescriptor, cur protoreflect.Value, variant int) protoreflect.Value {
	switch fd.Kind() {
	case protoreflect.StringKind:
		return protoreflect.ValueOfString(fmt.Sprintf("%s~mut%d", cur.String(), variant))
	case protoreflect.BoolKind:
		return protoreflect.ValueOfBool(!cur.Bool())
	case protoreflect.EnumKind:
		vals := fd.Enum().Values()
		n := protoreflect.EnumNumber((int(cur.Enum()) + 1 + variant) % vals.Len())
		if n == cur.Enum() {
			n = (n + 1) % protoreflect.EnumNumber(vals.Len())
		}
		return protoreflect.ValueOfEnum(n)
	case protoreflect.Int32Kind, protoreflect.Sint32Kind, protoreflect.Sfixed32Kind:
		return protoreflect.ValueOfInt32(int32(cur.Int()) + 7 + int32(variant))
	case protoreflect.Int64Kind, protoreflect.Sint64Kind, protoreflect.Sfixed64Kind:
		return protoreflect.ValueOfInt64(cur.Int() + 7 + int64(variant))
	case protoreflect.Uint32Kind, protoreflect.Fixed32Kind:
		return protoreflect.ValueOfUint32(uint32(cur.Uint()) + 7 + uint32(variant))
	case protoreflect.Uint64Kind, protoreflect.Fixed64Kind:
		return protoreflect.ValueOfUint64(cur.Uint() + 7 + uint64(variant))
	case protoreflect.BytesKind:
		return protoreflect.ValueOfBytes(append(append([]byte{}, cur.Bytes()...), byte('a'+variant)))
	}
	return cur
}

// Apply performs the mutation on root. It returns false when the site does not exist in this instance
// (missing element, empty list/map for an element action).
func Apply(r *rand.Rand, root protoreflect.Message, mu Mut, variant int, o PopOpts) bool {
	m, ok := Navigate(root, mu.Path)
	if !ok {
		return false
	}
	fd := mu.FD
	switch mu.Action {
	case "set":
		m.Set(fd, differentScalar(fd, m.Get(fd), variant))
	case "clear":
		if fd.IsList() {
			if m.Get(fd).List().Len() == 0 {
				return false
			}
		} else if !m.Has(fd) {
			return false
		}
		m.Clear(fd)
	case "set0":
		l := m.Mutable(fd).List()
		if l.Len() == 0 {
			return false
		}
		if fd.Kind() == protoreflect.MessageKind {
			e := l.NewElement()
			oo := o
			oo.PFill = 1
			Populate(r, e.Message(), oo)
			// make sure it differs from the element it replaces
			forceDifferent(e.Message(), variant)
			l.Set(0, e)
		} else {
			l.Set(0, differentScalar(fd, l.Get(0), variant))
		}
	case "append":
		l := m.Mutable(fd).List()
		if fd.Kind() == protoreflect.MessageKind {
			e := l.NewElement()
			oo := o
			oo.PFill = 1
			Populate(r, e.Message(), oo)
			forceDifferent(e.Message(), variant)
			l.Append(e)
		} else {
			var cur protoreflect.Value
			if l.Len() > 0 {
				cur = l.Get(0)
			} else {
				cur = scalar(r, fd, o)
			}
			l.Append(differentScalar(fd, cur, variant+2))
		}
	case "mapset", "mapdel":
		mp := m.Mutable(fd).Map()
		if mp.Len() == 0 {
			return false
		}
		var key protoreflect.MapKey
		found := false
		// smallest key for determinism
		mp.Range(func(k protoreflect.MapKey, _ protoreflect.Value) bool {
			if !found || k.Int() < key.Int() {
				key, found = k, true
			}
			return true
		})
		if mu.Action == "mapdel" {
			mp.Clear(key)
		} else {
			mp.Set(key, differentScalar(fd.MapValue(), mp.Get(key), variant))
		}
	case "mapnew":
		mp := m.Mutable(fd).Map()
		k := int32(900 + variant)
		mp.Set(protoreflect.ValueOfInt32(k).MapKey(), differentScalar(fd.MapValue(), protoreflect.ValueOfString("new"), variant))
	}
	return true
}

// forceDifferent tweaks the first string field so that two generated elements never coincide.
func forceDifferent(m protoreflect.Message, variant int) {
	fds := m.Descriptor().Fields()
	for i := 0; i < fds.Len(); i++ {
		fd := fds.Get(i)
		if fd.Kind() == protoreflect.StringKind && !fd.IsList() && !fd.IsMap() {
			m.Set(fd, protoreflect.ValueOfString(fmt.Sprintf("%s~el%d", m.Get(fd).String(), variant)))
			return
		}
	}
}
