package gen

import (
	"math/rand"

	"github.com/protobom/protobom/pkg/sbom"
	"google.golang.org/protobuf/proto"
	"google.golang.org/protobuf/reflect/protoreflect"
	"google.golang.org/protobuf/types/known/timestamppb"
)

// PopOpts steers the schema-driven populator.
type PopOpts struct {
	Text      func(r *rand.Rand) string // generator for string fields
	PFill     float64                   // probability that a field is populated
	MaxList   int
	Depth     int  // nesting budget for recursive messages (Person.contacts)
	ValidEnum bool // only declared enum numbers
	NoNanos   bool
	NoSpecial bool // no special-but-legal values (empty strings as list elements and map values, repeated list elements)
}

func DefaultPop() PopOpts {
	return PopOpts{Text: func(r *rand.Rand) string { return TextPlain(r, 8) }, PFill: 0.6, MaxList: 3, Depth: 2, ValidEnum: true}
}

// Populate fills every field of m (found by reflection, so fields added to the schema later are covered).
func Populate(r *rand.Rand, m protoreflect.Message, o PopOpts) {
	fds := m.Descriptor().Fields()
	for i := 0; i < fds.Len(); i++ {
		fd := fds.Get(i)
		if r.Float64() > o.PFill {
			continue
		}
		SetField(r, m, fd, o)
	}
}

// SetField gives field fd of m a fresh random non-empty value.
func SetField(r *rand.Rand, m protoreflect.Message, fd protoreflect.FieldDescriptor, o PopOpts) {
	switch {
	case fd.IsMap():
		mp := m.Mutable(fd).Map()
		n := 1 + r.Intn(o.MaxList)
		for j := 0; j < n; j++ {
			k := protoreflect.ValueOfInt32(int32(mapKeyFor(r, fd))).MapKey()
			v := scalar(r, fd.MapValue(), o)
			if !o.NoSpecial && fd.MapValue().Kind() == protoreflect.StringKind && r.Intn(12) == 0 {
				v = protoreflect.ValueOfString("") // a key that is present with an empty value
			}
			mp.Set(k, v)
		}
	case fd.IsList():
		l := m.Mutable(fd).List()
		n := 1 + r.Intn(o.MaxList)
		for j := 0; j < n; j++ {
			if fd.Kind() == protoreflect.MessageKind {
				if o.Depth <= 0 {
					break
				}
				e := l.NewElement()
				sub := o
				sub.Depth--
				sub.PFill = 0.7
				Populate(r, e.Message(), sub)
				l.Append(e)
			} else {
				l.Append(scalar(r, fd, o))
				if !o.NoSpecial && r.Intn(10) == 0 {
					if fd.Kind() == protoreflect.StringKind && r.Intn(2) == 0 {
						l.Append(protoreflect.ValueOfString("")) // an empty string as list element
					} else {
						l.Append(l.Get(r.Intn(l.Len()))) // a repeated element
					}
				}
			}
		}
	case fd.Kind() == protoreflect.MessageKind:
		if fd.Message().FullName() == "google.protobuf.Timestamp" {
			m.Set(fd, protoreflect.ValueOfMessage(Timestamp(r, o.NoNanos).ProtoReflect()))
			return
		}
		if o.Depth <= 0 {
			return
		}
		sub := o
		sub.Depth--
		Populate(r, m.Mutable(fd).Message(), sub)
	default:
		m.Set(fd, scalar(r, fd, o))
	}
}

func mapKeyFor(r *rand.Rand, fd protoreflect.FieldDescriptor) int {
	switch fd.Name() {
	case "identifiers":
		return 1 + r.Intn(4)
	case "hashes":
		return 1 + r.Intn(17)
	}
	return r.Intn(20)
}

func scalar(r *rand.Rand, fd protoreflect.FieldDescriptor, o PopOpts) protoreflect.Value {
	switch fd.Kind() {
	case protoreflect.StringKind:
		s := o.Text(r)
		if s == "" {
			s = "v"
		}
		return protoreflect.ValueOfString(s)
	case protoreflect.BoolKind:
		return protoreflect.ValueOfBool(true)
	case protoreflect.EnumKind:
		vals := fd.Enum().Values()
		if !o.ValidEnum && r.Intn(4) == 0 {
			// numbers the schema does not declare: just past the last value, far away, negative, extreme
			switch r.Intn(5) {
			case 0:
				return protoreflect.ValueOfEnum(protoreflect.EnumNumber(vals.Len() + r.Intn(3)))
			case 1:
				return protoreflect.ValueOfEnum(protoreflect.EnumNumber(-1 - r.Intn(3)))
			case 2:
				return protoreflect.ValueOfEnum(protoreflect.EnumNumber(-2147483648))
			case 3:
				return protoreflect.ValueOfEnum(protoreflect.EnumNumber(2147483647))
			}
			return protoreflect.ValueOfEnum(protoreflect.EnumNumber(1000 + r.Intn(100)))
		}
		// non-zero so that the field is observably set
		if vals.Len() > 1 {
			return protoreflect.ValueOfEnum(vals.Get(1 + r.Intn(vals.Len()-1)).Number())
		}
		return protoreflect.ValueOfEnum(vals.Get(0).Number())
	case protoreflect.Int32Kind, protoreflect.Sint32Kind, protoreflect.Sfixed32Kind:
		return protoreflect.ValueOfInt32(int32(1 + r.Intn(100)))
	case protoreflect.Int64Kind, protoreflect.Sint64Kind, protoreflect.Sfixed64Kind:
		return protoreflect.ValueOfInt64(int64(1 + r.Intn(100)))
	case protoreflect.Uint32Kind, protoreflect.Fixed32Kind:
		return protoreflect.ValueOfUint32(uint32(1 + r.Intn(100)))
	case protoreflect.Uint64Kind, protoreflect.Fixed64Kind:
		return protoreflect.ValueOfUint64(uint64(1 + r.Intn(100)))
	case protoreflect.BytesKind:
		return protoreflect.ValueOfBytes([]byte(o.Text(r)))
	case protoreflect.FloatKind:
		return protoreflect.ValueOfFloat32(1.5)
	case protoreflect.DoubleKind:
		return protoreflect.ValueOfFloat64(1.5)
	}
	return fd.Default()
}

// Timestamp within 1971..2099, or (1 in 12) the epoch itself.
func Timestamp(r *rand.Rand, noNanos bool) *timestamppb.Timestamp {
	if r.Intn(12) == 0 {
		// a date that is present but whose content is the zero value (the epoch), or within the epoch's first second
		ts := &timestamppb.Timestamp{}
		if !noNanos && r.Intn(2) == 0 {
			ts.Nanos = int32(1 + r.Intn(999999999))
		}
		return ts
	}
	ts := &timestamppb.Timestamp{Seconds: 31536000 + r.Int63n(4070908800-31536000)}
	if !noNanos && r.Intn(2) == 0 {
		ts.Nanos = int32(r.Intn(1000000000))
	}
	return ts
}

// Node returns a reflection-populated node with the given id.
func Node(r *rand.Rand, id string, o PopOpts) *sbom.Node {
	n := &sbom.Node{}
	Populate(r, n.ProtoReflect(), o)
	n.Id = id
	return n
}

func Clone[T proto.Message](m T) T { return proto.Clone(m).(T) }
