package gen

import (
	"fmt"
	"math/rand"
	"sort"
	"strings"

	"github.com/protobom/protobom/pkg/sbom"
)

// Triple is one typed edge target.
type Triple struct {
	From string
	Type sbom.Edge_Type
	To   string
}

func (t Triple) String() string { return fmt.Sprintf("%s-%d->%s", t.From, int32(t.Type), t.To) }

type Set map[string]struct{}

func (s Set) Add(k string)      { s[k] = struct{}{} }
func (s Set) Has(k string) bool { _, ok := s[k]; return ok }
func (s Set) Keys() []string {
	out := make([]string, 0, len(s))
	for k := range s {
		out = append(out, k)
	}
	sort.Strings(out)
	return out
}
func (s Set) String() string { return "{" + strings.Join(s.Keys(), ",") + "}" }
func (s Set) Equal(o Set) bool {
	if len(s) != len(o) {
		return false
	}
	for k := range s {
		if !o.Has(k) {
			return false
		}
	}
	return true
}
func (s Set) Subset(o Set) bool {
	for k := range s {
		if !o.Has(k) {
			return false
		}
	}
	return true
}
func Union(a, b Set) Set {
	o := Set{}
	for k := range a {
		o.Add(k)
	}
	for k := range b {
		o.Add(k)
	}
	return o
}
func Inter(a, b Set) Set {
	o := Set{}
	for k := range a {
		if b.Has(k) {
			o.Add(k)
		}
	}
	return o
}
func Minus(a, b Set) Set {
	o := Set{}
	for k := range a {
		if !b.Has(k) {
			o.Add(k)
		}
	}
	return o
}

// IDSet: ids of the nodes present.
func IDSet(nl *sbom.NodeList) Set {
	s := Set{}
	if nl == nil {
		return s
	}
	for _, n := range nl.Nodes {
		s.Add(n.Id)
	}
	return s
}

func RootSet(nl *sbom.NodeList) Set {
	s := Set{}
	if nl == nil {
		return s
	}
	for _, r := range nl.RootElements {
		s.Add(r)
	}
	return s
}

// TripleSet: all (from,type,to) triples.
func TripleSet(nl *sbom.NodeList) Set {
	s := Set{}
	if nl == nil {
		return s
	}
	for _, e := range nl.Edges {
		for _, t := range e.To {
			s.Add(Triple{e.From, e.Type, t}.String())
		}
	}
	return s
}

// TriplesAmong: triples with both ends in ids.
func TriplesAmong(nl *sbom.NodeList, ids Set) Set {
	s := Set{}
	if nl == nil {
		return s
	}
	for _, e := range nl.Edges {
		if !ids.Has(e.From) {
			continue
		}
		for _, t := range e.To {
			if ids.Has(t) {
				s.Add(Triple{e.From, e.Type, t}.String())
			}
		}
	}
	return s
}

// WellFormed: unique node ids; every edge endpoint and root names a present node. Returns "" or the reason.
func WellFormed(nl *sbom.NodeList) string {
	if nl == nil {
		return ""
	}
	ids := Set{}
	for _, n := range nl.Nodes {
		if n == nil {
			return "nil node"
		}
		if ids.Has(n.Id) {
			return "duplicate node id " + n.Id
		}
		ids.Add(n.Id)
	}
	for _, e := range nl.Edges {
		if e == nil {
			return "nil edge"
		}
		if !ids.Has(e.From) {
			return "edge source names no node: " + e.From
		}
		for _, t := range e.To {
			if !ids.Has(t) {
				return "edge target names no node: " + t
			}
		}
	}
	for _, r := range nl.RootElements {
		if !ids.Has(r) {
			return "root element names no node: " + r
		}
	}
	return ""
}

// Normalised: at most one edge per (source,type), no repeated targets. Returns "" or the reason.
func Normalised(nl *sbom.NodeList) string {
	if nl == nil {
		return ""
	}
	seen := Set{}
	for _, e := range nl.Edges {
		k := fmt.Sprintf("%s/%d", e.From, e.Type)
		if seen.Has(k) {
			return "two edges with the same source and type: " + k
		}
		seen.Add(k)
		ts := Set{}
		for _, t := range e.To {
			if ts.Has(t) {
				return "repeated target " + t + " in edge " + k
			}
			ts.Add(t)
		}
	}
	return ""
}

// GraphOpts controls random node lists.
type GraphOpts struct {
	Universe   []string // candidate ids
	EdgeTypes  []sbom.Edge_Type
	PNode      float64
	PEdge      float64 // per ordered pair and type
	PRoot      float64
	IllFormed  bool // allow dangling edges/roots, several edges per source/type, repeated targets
	NodeMaker  func(r *rand.Rand, id string) *sbom.Node
	SplitEdges bool // emit one edge per target instead of grouped
}

func bareNode(_ *rand.Rand, id string) *sbom.Node { return &sbom.Node{Id: id} }

// RandomNodeList draws a node list over the universe.
func RandomNodeList(r *rand.Rand, o GraphOpts) *sbom.NodeList {
	mk := o.NodeMaker
	if mk == nil {
		mk = bareNode
	}
	nl := &sbom.NodeList{}
	present := []string{}
	for _, id := range o.Universe {
		if r.Float64() < o.PNode {
			nl.Nodes = append(nl.Nodes, mk(r, id))
			present = append(present, id)
		}
	}
	cand := present
	if o.IllFormed {
		cand = o.Universe
	}
	for _, from := range cand {
		for _, et := range o.EdgeTypes {
			var tos []string
			for _, to := range cand {
				if r.Float64() < o.PEdge {
					tos = append(tos, to)
					if o.IllFormed && r.Intn(8) == 0 {
						tos = append(tos, to)
					}
				}
			}
			if len(tos) == 0 {
				continue
			}
			split := o.SplitEdges || (o.IllFormed && r.Intn(3) == 0)
			if split {
				for _, t := range tos {
					nl.Edges = append(nl.Edges, &sbom.Edge{From: from, Type: et, To: []string{t}})
				}
			} else {
				nl.Edges = append(nl.Edges, &sbom.Edge{From: from, Type: et, To: tos})
			}
		}
	}
	for _, id := range cand {
		if r.Float64() < o.PRoot {
			nl.RootElements = append(nl.RootElements, id)
		}
	}
	r.Shuffle(len(nl.Nodes), func(i, j int) { nl.Nodes[i], nl.Nodes[j] = nl.Nodes[j], nl.Nodes[i] })
	r.Shuffle(len(nl.Edges), func(i, j int) { nl.Edges[i], nl.Edges[j] = nl.Edges[j], nl.Edges[i] })
	return nl
}

// ShuffledPresentation returns a deep copy with nodes, edges, targets and roots permuted.
func ShuffledPresentation(r *rand.Rand, nl *sbom.NodeList) *sbom.NodeList {
	c := Clone(nl)
	r.Shuffle(len(c.Nodes), func(i, j int) { c.Nodes[i], c.Nodes[j] = c.Nodes[j], c.Nodes[i] })
	r.Shuffle(len(c.Edges), func(i, j int) { c.Edges[i], c.Edges[j] = c.Edges[j], c.Edges[i] })
	for _, e := range c.Edges {
		r.Shuffle(len(e.To), func(i, j int) { e.To[i], e.To[j] = e.To[j], e.To[i] })
	}
	r.Shuffle(len(c.RootElements), func(i, j int) { c.RootElements[i], c.RootElements[j] = c.RootElements[j], c.RootElements[i] })
	return c
}

// SplitPresentation returns a deep copy holding the same nodes, roots and edge triples in another stored form:
// every edge record is cut into one to three records (same source and type, the targets dealt out among them) and
// the records of all sources are interleaved at random.
func SplitPresentation(r *rand.Rand, nl *sbom.NodeList) *sbom.NodeList {
	c := Clone(nl)
	var out []*sbom.Edge
	for _, e := range c.Edges {
		k := 1 + r.Intn(3)
		if k > len(e.To) {
			k = len(e.To)
		}
		if k <= 1 {
			out = append(out, e)
			continue
		}
		parts := make([]*sbom.Edge, k)
		for i := range parts {
			parts[i] = &sbom.Edge{From: e.From, Type: e.Type}
		}
		for i, t := range e.To {
			j := i
			if i >= k {
				j = r.Intn(k)
			}
			parts[j].To = append(parts[j].To, t)
		}
		out = append(out, parts...)
	}
	r.Shuffle(len(out), func(i, j int) { out[i], out[j] = out[j], out[i] })
	c.Edges = out
	return c
}

// EnumerateWellFormed lists every well-formed node list over ids[0:n] with one edge type:
// every subset of nodes × every subset of edge triples among them × every root subset.
// Edges are stored normalised (grouped per source).
func EnumerateWellFormed(ids []string, et sbom.Edge_Type) []*sbom.NodeList {
	var out []*sbom.NodeList
	n := len(ids)
	for nm := 0; nm < 1<<n; nm++ {
		var present []string
		for i := 0; i < n; i++ {
			if nm&(1<<i) != 0 {
				present = append(present, ids[i])
			}
		}
		p := len(present)
		for em := 0; em < 1<<(p*p); em++ {
			for rm := 0; rm < 1<<p; rm++ {
				nl := &sbom.NodeList{}
				for _, id := range present {
					nl.Nodes = append(nl.Nodes, &sbom.Node{Id: id})
				}
				for i := 0; i < p; i++ {
					var tos []string
					for j := 0; j < p; j++ {
						if em&(1<<(i*p+j)) != 0 {
							tos = append(tos, present[j])
						}
					}
					if len(tos) > 0 {
						nl.Edges = append(nl.Edges, &sbom.Edge{From: present[i], Type: et, To: tos})
					}
				}
				for i := 0; i < p; i++ {
					if rm&(1<<i) != 0 {
						nl.RootElements = append(nl.RootElements, present[i])
					}
				}
				out = append(out, nl)
			}
		}
	}
	return out
}

// Canon renders a node list's three sets canonically (for hashing and messages).
func Canon(nl *sbom.NodeList) string {
	if nl == nil {
		return "<nil>"
	}
	return fmt.Sprintf("N%s E%s R%s", IDSet(nl), TripleSet(nl), RootSet(nl))
}
