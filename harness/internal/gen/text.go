// Package gen holds the seeded generators shared by the property checks.
package gen

import (
	"math/rand"
	"strings"
	"unicode/utf8"
)

const idAlphabet = "abcdefghijklmnopqrstuvwxyzABCDEFGHIJKLMNOPQRSTUVWXYZ0123456789.-"

// IDSpdx: a valid SPDX idstring ([A-Za-z0-9.-]+), not DOCUMENT, not starting with SPDXRef-.
func IDSpdx(r *rand.Rand) string {
	for {
		n := 1 + r.Intn(12)
		var b strings.Builder
		for i := 0; i < n; i++ {
			b.WriteByte(idAlphabet[r.Intn(len(idAlphabet))])
		}
		s := b.String()
		if s == "DOCUMENT" || strings.HasPrefix(s, "SPDXRef-") || strings.HasPrefix(s, "protobom-") {
			continue
		}
		return s
	}
}

var safeRunes = [][2]rune{
	{0x20, 0x7e},       // ASCII printable (filtered below)
	{0xa1, 0x17f},      // Latin-1 / Latin Extended-A
	{0x370, 0x3ff},     // Greek
	{0x400, 0x4ff},     // Cyrillic
	{0x5d0, 0x5ea},     // Hebrew (RTL)
	{0x627, 0x64a},     // Arabic (RTL)
	{0x300, 0x36f},     // combining marks
	{0x4e00, 0x4fff},   // CJK
	{0x3040, 0x30ff},   // kana
	{0x1f600, 0x1f64f}, // emoji (astral)
	{0x10000, 0x1007f}, // Linear B (astral)
}

func jsonNeedsEscape(c rune) bool {
	// & < > need no escape in JSON (Go's encoder escapes them only in its HTML-safe mode): they are in the class
	return c < 0x20 || c == '"' || c == '\\' || c == 0x2028 || c == 0x2029 || c == 0x7f
}

// TextSafe: arbitrary Unicode that JSON carries without escapes; no leading/trailing white space.
func TextSafe(r *rand.Rand, max int) string {
	n := 1 + r.Intn(max)
	var b strings.Builder
	for i := 0; i < n; i++ {
		var c rune
		for {
			rg := safeRunes[0]
			if r.Intn(3) == 0 {
				rg = safeRunes[r.Intn(len(safeRunes))]
			}
			c = rg[0] + rune(r.Intn(int(rg[1]-rg[0]+1)))
			if !jsonNeedsEscape(c) {
				break
			}
		}
		b.WriteRune(c)
	}
	s := strings.TrimSpace(b.String())
	// combining marks at the start are legal but trimmed variants differ between libraries; keep a letter first
	if s == "" || !utf8.ValidString(s) {
		return "x"
	}
	return s
}

// TextPlain: TextSafe without the separator characters used by protobom's flattened strings
// and without parentheses (SPDX actor strings use them for the e-mail part).
func TextPlain(r *rand.Rand, max int) string {
	s := TextSafe(r, max)
	s = strings.Map(func(c rune) rune {
		switch c {
		case ':', '[', ']', '(', ')', '+', ' ':
			return '_'
		}
		return c
	}, s)
	return s
}

// TextAny: anything, including control characters, separators, invalid UTF-8 and the empty string.
func TextAny(r *rand.Rand, max int) string {
	switch r.Intn(12) {
	case 10: // white space around the value (what a "trim" cleanup would change)
		return Pick(r, []string{" ", "\n", "\t ", ""}) + TextSafe(r, max) + Pick(r, []string{" ", "\n", "  \n", "\t"})
	case 0:
		return ""
	case 1:
		b := make([]byte, 1+r.Intn(max))
		r.Read(b)
		return string(b)
	case 2:
		specials := []string{":", "[", "]", "(", ")", "+", "+++", "\x00", "\n", "\"", "\\", "protobom.protobom.Node.version:1", "n(x)o(false)", "<&>", " "}
		var b strings.Builder
		for i := 0; i < 1+r.Intn(4); i++ {
			b.WriteString(specials[r.Intn(len(specials))])
			b.WriteString(TextSafe(r, 3))
		}
		return b.String()
	}
	return TextSafe(r, max)
}

// ValidUTF8Any: like TextAny but always valid UTF-8 (protobuf string fields require it for Marshal).
func ValidUTF8Any(r *rand.Rand, max int) string {
	s := TextAny(r, max)
	if !utf8.ValidString(s) {
		return strings.ToValidUTF8(s, "�")
	}
	return s
}

func Pick[T any](r *rand.Rand, xs []T) T { return xs[r.Intn(len(xs))] }

func Shuffle[T any](r *rand.Rand, xs []T) []T {
	out := append([]T(nil), xs...)
	r.Shuffle(len(out), func(i, j int) { out[i], out[j] = out[j], out[i] })
	return out
}
