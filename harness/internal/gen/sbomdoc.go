package gen

import (
	"fmt"
	"math/rand"

	"github.com/protobom/protobom/pkg/sbom"
)

// Generators for documents of the format-representable classes (C01, C02, C03, C05, C06).

var SPDXHashAlgos = []sbom.HashAlgorithm{
	sbom.HashAlgorithm_MD5, sbom.HashAlgorithm_SHA1, sbom.HashAlgorithm_SHA256, sbom.HashAlgorithm_SHA384, sbom.HashAlgorithm_SHA512,
	sbom.HashAlgorithm_SHA3_256, sbom.HashAlgorithm_SHA3_384, sbom.HashAlgorithm_SHA3_512, sbom.HashAlgorithm_BLAKE2B_256, sbom.HashAlgorithm_BLAKE2B_384,
	sbom.HashAlgorithm_BLAKE2B_512, sbom.HashAlgorithm_BLAKE3, sbom.HashAlgorithm_ADLER32, sbom.HashAlgorithm_MD4, sbom.HashAlgorithm_MD6, sbom.HashAlgorithm_SHA224,
}

var CDXHashAlgos = []sbom.HashAlgorithm{
	sbom.HashAlgorithm_MD5, sbom.HashAlgorithm_SHA1, sbom.HashAlgorithm_SHA256, sbom.HashAlgorithm_SHA384, sbom.HashAlgorithm_SHA512,
	sbom.HashAlgorithm_SHA3_256, sbom.HashAlgorithm_SHA3_384, sbom.HashAlgorithm_SHA3_512, sbom.HashAlgorithm_BLAKE2B_256, sbom.HashAlgorithm_BLAKE2B_384,
	sbom.HashAlgorithm_BLAKE2B_512, sbom.HashAlgorithm_BLAKE3,
}

// purposes SPDX 2.3 carries natively
var SPDXPurposes = []sbom.Purpose{
	sbom.Purpose_APPLICATION, sbom.Purpose_FRAMEWORK, sbom.Purpose_LIBRARY, sbom.Purpose_CONTAINER, sbom.Purpose_OPERATING_SYSTEM, sbom.Purpose_DEVICE,
	sbom.Purpose_FIRMWARE, sbom.Purpose_SOURCE, sbom.Purpose_ARCHIVE, sbom.Purpose_FILE, sbom.Purpose_INSTALL, sbom.Purpose_OTHER,
}

// external reference types SPDX 2.3 carries natively (SECURITY_SWID is pinned to OTHER/OTHER by the repository's tests)
var SPDXExtRefTypes = []sbom.ExternalReference_ExternalReferenceType{
	sbom.ExternalReference_BOWER, sbom.ExternalReference_MAVEN_CENTRAL, sbom.ExternalReference_NPM, sbom.ExternalReference_NUGET,
	sbom.ExternalReference_SECURITY_ADVISORY, sbom.ExternalReference_SECURITY_FIX, sbom.ExternalReference_SECURITY_OTHER, sbom.ExternalReference_OTHER,
}

func hexish(r *rand.Rand) string {
	n := 8 + r.Intn(56)
	b := make([]byte, n)
	for i := range b {
		b[i] = "0123456789abcdef"[r.Intn(16)]
	}
	return string(b)
}

// Shape builds the edge/root structure of a catalogue shape over the given ids.
// Returned edges use the given type list; grouped or split storage is chosen by the caller.
func Shape(r *rand.Rand, shape int, ids []string, types []sbom.Edge_Type) (edges []*sbom.Edge, roots []string, name string) {
	n := len(ids)
	et := func() sbom.Edge_Type { return types[r.Intn(len(types))] }
	add := func(from string, t sbom.Edge_Type, to ...string) {
		edges = append(edges, &sbom.Edge{From: from, Type: t, To: to})
	}
	if n == 0 {
		return nil, nil, "empty"
	}
	switch shape % 15 {
	case 0:
		name = "singleton-or-isolated"
		roots = []string{ids[0]}
	case 1:
		name = "chain"
		for i := 0; i+1 < n; i++ {
			add(ids[i], et(), ids[i+1])
		}
		roots = []string{ids[0]}
	case 2:
		name = "star"
		if n > 1 {
			add(ids[0], et(), ids[1:]...)
		}
		roots = []string{ids[0]}
	case 3:
		name = "diamond"
		if n >= 4 {
			t := et()
			add(ids[0], t, ids[1], ids[2])
			add(ids[1], t, ids[3])
			add(ids[2], t, ids[3])
		}
		roots = []string{ids[0]}
	case 4:
		name = "dag"
		for i := 0; i < n; i++ {
			for j := i + 1; j < n; j++ {
				if r.Intn(3) == 0 {
					add(ids[i], et(), ids[j])
				}
			}
		}
		roots = []string{ids[0]}
	case 5:
		name = "cycle"
		for i := 0; i < n; i++ {
			add(ids[i], et(), ids[(i+1)%n])
		}
		roots = []string{ids[r.Intn(n)]}
	case 6:
		name = "self-loop"
		add(ids[0], et(), ids[0])
		if n > 1 {
			add(ids[0], et(), ids[1])
			add(ids[1], et(), ids[1])
		}
		roots = []string{ids[0]}
	case 7:
		name = "multi-edge-per-source-type"
		t := et()
		for i := 1; i < n; i++ {
			add(ids[0], t, ids[i]) // several stored edges with the same (from,type)
		}
		if n > 2 {
			add(ids[0], t, ids[1], ids[2])
		}
		roots = []string{ids[0]}
	case 8:
		name = "several-roots"
		for i := 0; i+1 < n; i += 2 {
			add(ids[i], et(), ids[i+1])
		}
		for i := 0; i < n; i += 2 {
			roots = append(roots, ids[i])
		}
	case 9:
		name = "no-root"
		for i := 0; i+1 < n; i++ {
			add(ids[i], et(), ids[i+1])
		}
	case 10:
		name = "complete"
		for i := 0; i < n && i < 6; i++ {
			var tos []string
			for j := 0; j < n && j < 6; j++ {
				tos = append(tos, ids[j])
			}
			add(ids[i], et(), tos...)
		}
		roots = []string{ids[0]}
	case 11:
		name = "all-roots"
		roots = append(roots, ids...)
		if n > 1 {
			add(ids[n-1], et(), ids[0])
		}
	case 12:
		name = "parallel-edges-of-different-types"
		// the same ordered pair linked by several edges of different types (and both directions)
		for i := 0; i+1 < n; i++ {
			add(ids[i], types[0], ids[i+1])
			add(ids[i], types[len(types)-1], ids[i+1])
			if r.Intn(2) == 0 {
				add(ids[i], et(), ids[i+1])
				add(ids[i+1], types[0], ids[i])
			}
		}
		if n == 1 {
			add(ids[0], types[0], ids[0])
			add(ids[0], types[len(types)-1], ids[0])
		}
		roots = []string{ids[0]}
	case 13:
		name = "repeated-identical-edges"
		// the same relationship stated by two separate stored edges (what a reader produces for a repeated statement)
		// (a binary tree, so that containment stays a forest)
		t := types[0]
		for j := 1; j < n; j++ {
			add(ids[(j-1)/2], t, ids[j])
		}
		for j := 1; j < n; j++ {
			if r.Intn(2) == 0 {
				add(ids[(j-1)/2], t, ids[j])
			}
		}
		roots = []string{ids[0]}
	default:
		name = "random"
		for i := 0; i < n; i++ {
			for j := 0; j < n; j++ {
				if r.Intn(n+1) == 0 {
					add(ids[i], et(), ids[j])
				}
			}
			if r.Intn(4) == 0 {
				roots = append(roots, ids[i])
			}
		}
	}
	return
}

func person(r *rand.Rand, txt func() string) *sbom.Person {
	p := &sbom.Person{Name: txt(), IsOrg: r.Intn(2) == 0}
	if r.Intn(2) == 0 {
		p.Email = fmt.Sprintf("%s@example.com", IDSpdx(r))
	}
	return p
}

// SPDXPackageNode: a package node using only attributes SPDX 2.3 can carry. force* < 0 = no forcing.
// padded: class text sometimes carries leading/trailing spaces (JSON needs no escape for them).
func padded(r *rand.Rand, s string) string {
	switch r.Intn(10) {
	case 0:
		return " " + s
	case 1:
		return s + "  "
	}
	return s
}

func SPDXPackageNode(r *rand.Rand, id string, forceAlgo int) *sbom.Node {
	txt := func() string { return padded(r, TextSafe(r, 10)) }
	// actor names: no parentheses/colon tricks are needed, SPDX actor strings are "name" or "name (email)"
	actor := func() string { return TextPlain(r, 8) }
	p := func() bool { return r.Intn(2) == 0 }
	n := &sbom.Node{Id: id, Type: sbom.Node_PACKAGE}
	if p() {
		n.Name = txt()
	}
	if p() {
		n.Version = txt()
	}
	if p() {
		n.FileName = txt()
	}
	if p() {
		n.UrlHome = "https://example.com/" + txt()
	}
	if p() {
		n.UrlDownload = "https://example.com/dl/" + txt()
	}
	if p() {
		n.LicenseConcluded = Pick(r, []string{"MIT", "Apache-2.0", "GPL-2.0-only OR MIT", "LicenseRef-x"})
	}
	if p() {
		n.LicenseComments = txt()
	}
	if p() {
		n.Copyright = txt()
	}
	if p() {
		n.SourceInfo = txt()
	}
	if p() {
		n.Comment = txt()
	}
	if p() {
		n.Summary = txt()
	}
	if p() {
		n.Description = txt()
	}
	if p() {
		for i := 0; i < 1+r.Intn(3); i++ {
			n.Attribution = append(n.Attribution, txt())
		}
	}
	if p() || forceAlgo >= 0 {
		n.Hashes = map[int32]string{}
		for i := 0; i < r.Intn(4); i++ {
			n.Hashes[int32(Pick(r, SPDXHashAlgos))] = hexish(r)
		}
		if forceAlgo >= 0 {
			n.Hashes[int32(SPDXHashAlgos[forceAlgo%len(SPDXHashAlgos)])] = hexish(r)
		}
	}
	if p() {
		n.Identifiers = map[int32]string{}
		if p() {
			n.Identifiers[int32(sbom.SoftwareIdentifierType_PURL)] = "pkg:generic/" + IDSpdx(r) + "@" + IDSpdx(r)
		}
		if p() {
			n.Identifiers[int32(sbom.SoftwareIdentifierType_CPE23)] = "cpe:2.3:a:" + IDSpdx(r) + ":" + IDSpdx(r) + ":*:*:*:*:*:*:*:*"
		}
		if p() {
			n.Identifiers[int32(sbom.SoftwareIdentifierType_CPE22)] = "cpe:/a:" + IDSpdx(r) + ":" + IDSpdx(r)
		}
		if p() {
			n.Identifiers[int32(sbom.SoftwareIdentifierType_GITOID)] = "gitoid:blob:sha256:" + hexish(r)
		}
	}
	if p() {
		for i := 0; i < 1+r.Intn(3); i++ {
			er := &sbom.ExternalReference{Type: Pick(r, SPDXExtRefTypes), Url: "https://refs.example/" + txt()}
			if p() {
				er.Comment = txt()
			}
			n.ExternalReferences = append(n.ExternalReferences, er)
		}
	}
	if r.Intn(5) == 0 {
		// one value in several places: an identifier that is also the URL of an external reference, two
		// references with one URL, two identifier kinds with one value, home page = download location
		var idVals []string
		for _, k := range []int32{1, 2, 3, 4} {
			if v, ok := n.Identifiers[k]; ok {
				idVals = append(idVals, v)
			}
		}
		switch r.Intn(4) {
		case 0:
			if len(idVals) > 0 && len(n.ExternalReferences) > 0 {
				n.ExternalReferences[r.Intn(len(n.ExternalReferences))].Url = Pick(r, idVals)
			}
		case 1:
			if len(n.ExternalReferences) >= 2 && n.ExternalReferences[0].Type != n.ExternalReferences[1].Type {
				n.ExternalReferences[1].Url = n.ExternalReferences[0].Url
			}
		case 2:
			if len(idVals) >= 2 {
				ks := []int32{}
				for _, k := range []int32{1, 2, 3, 4} {
					if _, ok := n.Identifiers[k]; ok {
						ks = append(ks, k)
					}
				}
				n.Identifiers[ks[1]] = n.Identifiers[ks[0]]
			}
		default:
			if n.UrlHome != "" {
				n.UrlDownload = n.UrlHome
			}
		}
	}
	switch r.Intn(6) {
	case 0:
	case 1: // two purposes: the format carries one
		n.PrimaryPurpose = []sbom.Purpose{Pick(r, SPDXPurposes), Pick(r, SPDXPurposes)}
	default:
		n.PrimaryPurpose = []sbom.Purpose{Pick(r, SPDXPurposes)}
	}
	if p() {
		n.ReleaseDate = Timestamp(r, false)
	}
	if p() {
		n.BuildDate = Timestamp(r, false)
	}
	if p() {
		n.ValidUntilDate = Timestamp(r, false)
	}
	if p() {
		n.Suppliers = []*sbom.Person{person(r, actor)}
		if p() {
			n.Suppliers = append(n.Suppliers, person(r, actor))
		}
	}
	if p() {
		n.Originators = []*sbom.Person{person(r, actor)}
	}
	return n
}

// SPDXFileNode: a file node using only attributes SPDX 2.3 files can carry.
func SPDXFileNode(r *rand.Rand, id string, forceAlgo int) *sbom.Node {
	txt := func() string { return padded(r, TextSafe(r, 10)) }
	p := func() bool { return r.Intn(2) == 0 }
	n := &sbom.Node{Id: id, Type: sbom.Node_FILE, Name: "./" + txt()}
	if p() {
		n.LicenseConcluded = Pick(r, []string{"MIT", "Apache-2.0", "BSD-3-Clause"})
	}
	if p() {
		n.LicenseComments = txt()
	}
	if p() {
		n.Copyright = txt()
	}
	if p() {
		n.Comment = txt()
	}
	if p() {
		for i := 0; i < 1+r.Intn(2); i++ {
			n.FileTypes = append(n.FileTypes, Pick(r, []string{"SOURCE", "BINARY", "TEXT", "ARCHIVE", "OTHER"}))
		}
	}
	if p() {
		for i := 0; i < 1+r.Intn(2); i++ {
			n.Attribution = append(n.Attribution, txt())
		}
	}
	if p() || forceAlgo >= 0 {
		n.Hashes = map[int32]string{}
		for i := 0; i < r.Intn(3); i++ {
			n.Hashes[int32(Pick(r, SPDXHashAlgos))] = hexish(r)
		}
		if forceAlgo >= 0 {
			n.Hashes[int32(SPDXHashAlgos[forceAlgo%len(SPDXHashAlgos)])] = hexish(r)
		}
	}
	return n
}

func UniqueIDs(r *rand.Rand, n int, mk func(*rand.Rand) string) []string {
	return UniqueIDsSep(r, n, mk, "1-.")
}

// UniqueIDsSep is UniqueIDs for formats whose identifiers may contain the given separator characters: the related
// identifiers of a document are built from the letter a and two of them, so that whatever character a key-building
// routine puts between two identifiers ("/", ":", "|", ...) may also occur inside them.
func UniqueIDsSep(r *rand.Rand, n int, mk func(*rand.Rand) string, seps string) []string {
	if r.Intn(4) == 0 && n <= 100 {
		rs := []rune(seps)
		a, b := rs[r.Intn(len(rs))], rs[r.Intn(len(rs))]
		if a == b {
			b = '1'
		}
		if a == '1' && b == '1' {
			b = '-'
		}
		return RelatedIDs(r, n, "a"+string(a)+string(b))
	}
	seen := Set{}
	var out []string
	for len(out) < n {
		id := mk(r)
		if seen.Has(id) {
			continue
		}
		seen.Add(id)
		out = append(out, id)
	}
	return out
}

// RelatedIDs: n distinct short identifiers over a three-character alphabet such as {a,1,-} (length 1..4), so that identifiers are prefixes, suffixes and
// concatenations of one another ("a"+"11" == "a1"+"1") and end in digits: keys built by gluing identifiers (and
// numbers) together collide on them.
func RelatedIDs(r *rand.Rand, n int, alphabet string) []string {
	var all []string
	var rec func(p string)
	rec = func(p string) {
		if len(p) > 0 {
			all = append(all, p)
		}
		if len(p) == 4 {
			return
		}
		for _, ch := range alphabet {
			rec(p + string(ch))
		}
	}
	rec("")
	// prefer the shortest ones: collisions need short pieces
	short, long := all[:0:0], all[:0:0]
	for _, s := range all {
		if len(s) <= 2 {
			short = append(short, s)
		} else {
			long = append(long, s)
		}
	}
	r.Shuffle(len(short), func(i, j int) { short[i], short[j] = short[j], short[i] })
	r.Shuffle(len(long), func(i, j int) { long[i], long[j] = long[j], long[i] })
	out := append(short, long...)[:n]
	r.Shuffle(len(out), func(i, j int) { out[i], out[j] = out[j], out[i] })
	return out
}

// IsRelatedIDs reports whether the list's identifiers come from RelatedIDs.
func IsRelatedIDs(nl *sbom.NodeList) bool {
	if nl == nil || len(nl.Nodes) < 2 {
		return false
	}
	seen := map[rune]bool{}
	for _, n := range nl.Nodes {
		rs := []rune(n.Id)
		if len(rs) == 0 || len(rs) > 4 {
			return false
		}
		for _, c := range rs {
			seen[c] = true
		}
	}
	return len(seen) <= 3
}

// SPDXDoc draws a document of the SPDX-representable class. k forces coverage:
// edge type 1+k%44 and checksum algorithm k%16 appear in the document, the shape is k%15.
func SPDXDoc(r *rand.Rand, k, maxNodes int) (*sbom.Document, string) {
	doc := sbom.NewDocument()
	doc.Metadata.Id = "urn:uuid:" + hexish(r)
	doc.Metadata.Name = TextSafe(r, 8)
	n := 1 + r.Intn(maxNodes)
	if k%29 == 28 {
		n = 0
	}
	ids := UniqueIDs(r, n, IDSpdx)
	forced := sbom.Edge_Type(1 + k%44)
	types := []sbom.Edge_Type{forced, sbom.Edge_Type(1 + r.Intn(44)), sbom.Edge_Type(1 + (int(forced)+r.Intn(43))%44)}
	for i, id := range ids {
		fa := -1
		if i == 0 {
			fa = k % 16
		}
		if r.Intn(4) == 0 {
			doc.NodeList.Nodes = append(doc.NodeList.Nodes, SPDXFileNode(r, id, fa))
		} else {
			doc.NodeList.Nodes = append(doc.NodeList.Nodes, SPDXPackageNode(r, id, fa))
		}
	}
	edges, roots, shape := Shape(r, k, ids, types)
	if n > 0 {
		// make sure the forced type occurs
		edges = append(edges, &sbom.Edge{From: ids[r.Intn(n)], Type: forced, To: []string{ids[r.Intn(n)]}})
	}
	doc.NodeList.Edges = edges
	doc.NodeList.RootElements = roots
	r.Shuffle(len(doc.NodeList.Edges), func(i, j int) {
		doc.NodeList.Edges[i], doc.NodeList.Edges[j] = doc.NodeList.Edges[j], doc.NodeList.Edges[i]
	})
	return doc, shape
}

// ---------------------------------------------------------------- CycloneDX class

// component types per spec version (harness's own table, from the CycloneDX 1.4 / 1.5 schemas)
var CDXPurposes14 = []sbom.Purpose{sbom.Purpose_APPLICATION, sbom.Purpose_FRAMEWORK, sbom.Purpose_LIBRARY, sbom.Purpose_CONTAINER,
	sbom.Purpose_OPERATING_SYSTEM, sbom.Purpose_DEVICE, sbom.Purpose_FIRMWARE}
var CDXPurposes15 = append(append([]sbom.Purpose{}, CDXPurposes14...), sbom.Purpose_PLATFORM, sbom.Purpose_DEVICE_DRIVER, sbom.Purpose_MACHINE_LEARNING_MODEL, sbom.Purpose_DATA)

// external reference types per spec version (CycloneDX 1.4: 16 types; 1.5 adds 23)
var CDXExtRef14 = []sbom.ExternalReference_ExternalReferenceType{
	sbom.ExternalReference_VCS, sbom.ExternalReference_ISSUE_TRACKER, sbom.ExternalReference_WEBSITE, sbom.ExternalReference_SECURITY_ADVISORY,
	sbom.ExternalReference_BOM, sbom.ExternalReference_MAILING_LIST, sbom.ExternalReference_SOCIAL, sbom.ExternalReference_CHAT,
	sbom.ExternalReference_DOCUMENTATION, sbom.ExternalReference_SUPPORT, sbom.ExternalReference_DOWNLOAD, sbom.ExternalReference_LICENSE,
	sbom.ExternalReference_BUILD_META, sbom.ExternalReference_BUILD_SYSTEM, sbom.ExternalReference_RELEASE_NOTES, sbom.ExternalReference_OTHER,
}
var CDXExtRef15 = append(append([]sbom.ExternalReference_ExternalReferenceType{}, CDXExtRef14...),
	sbom.ExternalReference_DISTRIBUTION_INTAKE, sbom.ExternalReference_SECURITY_CONTACT, sbom.ExternalReference_MODEL_CARD, sbom.ExternalReference_LOG,
	sbom.ExternalReference_CONFIGURATION, sbom.ExternalReference_EVIDENCE, sbom.ExternalReference_FORMULATION, sbom.ExternalReference_ATTESTATION,
	sbom.ExternalReference_SECURITY_THREAT_MODEL, sbom.ExternalReference_SECURITY_ADVERSARY_MODEL, sbom.ExternalReference_RISK_ASSESSMENT,
	sbom.ExternalReference_VULNERABILITY_ASSERTION, sbom.ExternalReference_VULNERABILITY_EXPLOITABILITY_ASSESSMENT, sbom.ExternalReference_SECURITY_PENTEST_REPORT,
	sbom.ExternalReference_STATIC_ANALYSIS_REPORT, sbom.ExternalReference_DYNAMIC_ANALYSIS_REPORT, sbom.ExternalReference_RUNTIME_ANALYSIS_REPORT,
	sbom.ExternalReference_COMPONENT_ANALYSIS_REPORT, sbom.ExternalReference_MATURITY_REPORT, sbom.ExternalReference_CERTIFICATION_REPORT,
	sbom.ExternalReference_QUALITY_METRICS, sbom.ExternalReference_CODIFIED_INFRASTRUCTURE, sbom.ExternalReference_POAM)

var CDXLifecycles = []sbom.DocumentType_SBOMType{sbom.DocumentType_DESIGN, sbom.DocumentType_SOURCE, sbom.DocumentType_BUILD, sbom.DocumentType_ANALYZED,
	sbom.DocumentType_DEPLOYED, sbom.DocumentType_DISCOVERY, sbom.DocumentType_DECOMISSION}

// IDCdx: printable text without the reserved protobom- prefix.
func IDCdx(r *rand.Rand) string {
	for {
		var s string
		if r.Intn(12) == 0 {
			// ordinary identifiers that contain fragments of the marker of generated ones, or reserved-looking words
			return Pick(r, []string{"lib-automake", "SPDXRef-Package-autoconf", "x-auto--1", "my-auto", "auto--x", "protobom", "protobomx-auto--1", "a--b-auto", "node-auto-", "-auto"}) + Pick(r, []string{"", "", IDSpdx(r)[:1]})
		}
		switch r.Intn(3) {
		case 0:
			s = IDSpdx(r)
		case 1:
			s = "pkg:npm/" + IDSpdx(r) + "@" + IDSpdx(r) + "?package-id=" + hexish(r)[:8]
		default:
			s = TextSafe(r, 10)
		}
		if len(s) >= 9 && s[:9] == "protobom-" {
			continue
		}
		return s
	}
}

// CDXNode: a node with the CycloneDX-expressible attributes for spec version 14 or 15.
func CDXNode(r *rand.Rand, id string, ver int, k int, first bool) *sbom.Node {
	txt := func() string { return padded(r, TextSafe(r, 10)) }
	p := func() bool { return r.Intn(2) == 0 }
	n := &sbom.Node{Id: id, Type: sbom.Node_PACKAGE}
	purposes, ers := CDXPurposes14, CDXExtRef14
	if ver == 15 {
		purposes, ers = CDXPurposes15, CDXExtRef15
	}
	if r.Intn(5) == 0 {
		n.Type = sbom.Node_FILE
		if p() {
			n.PrimaryPurpose = []sbom.Purpose{sbom.Purpose_FILE}
		}
	} else {
		n.PrimaryPurpose = []sbom.Purpose{Pick(r, purposes)}
		if first {
			n.PrimaryPurpose = []sbom.Purpose{purposes[k%len(purposes)]}
		}
	}
	if p() {
		n.Name = txt()
	}
	if p() {
		n.Version = txt()
	}
	if p() {
		n.Description = txt()
	}
	if p() {
		n.Copyright = txt()
	}
	if p() || first {
		n.Hashes = map[int32]string{}
		for i := 0; i < r.Intn(4); i++ {
			n.Hashes[int32(Pick(r, CDXHashAlgos))] = hexish(r)
		}
		if first {
			n.Hashes[int32(CDXHashAlgos[k%len(CDXHashAlgos)])] = hexish(r)
		}
	}
	if p() {
		n.Identifiers = map[int32]string{}
		if p() {
			n.Identifiers[int32(sbom.SoftwareIdentifierType_PURL)] = "pkg:generic/" + IDSpdx(r) + "@" + IDSpdx(r)
		}
		switch r.Intn(3) {
		case 0:
			n.Identifiers[int32(sbom.SoftwareIdentifierType_CPE23)] = "cpe:2.3:a:" + IDSpdx(r) + ":" + IDSpdx(r) + ":*:*:*:*:*:*:*:*"
		case 1:
			n.Identifiers[int32(sbom.SoftwareIdentifierType_CPE22)] = "cpe:/a:" + IDSpdx(r) + ":" + IDSpdx(r)
		}
	}
	if p() {
		for i := 0; i < 1+r.Intn(3); i++ {
			n.Licenses = append(n.Licenses, Pick(r, []string{"MIT", "Apache-2.0", "BSD-3-Clause", "GPL-2.0-only", "ISC", "MPL-2.0"}))
		}
	}
	if r.Intn(3) == 0 {
		// suppliers are written (first one, with contacts) but not read back; present so that the code runs
		sp := &sbom.Person{Name: txt(), IsOrg: true}
		for i := 0; i < r.Intn(3); i++ {
			sp.Contacts = append(sp.Contacts, &sbom.Person{Name: txt(), Email: IDSpdx(r) + "@example.com", Phone: "123"})
		}
		n.Suppliers = []*sbom.Person{sp}
	}
	if p() || first {
		cnt := 1 + r.Intn(3)
		for i := 0; i < cnt; i++ {
			er := &sbom.ExternalReference{Type: Pick(r, ers), Url: "https://refs.example/" + txt()}
			if first && i == 0 {
				er.Type = ers[k%len(ers)]
			}
			if p() {
				er.Comment = txt()
			}
			if p() {
				er.Hashes = map[int32]string{int32(Pick(r, CDXHashAlgos)): hexish(r)}
				if p() {
					er.Hashes[int32(Pick(r, CDXHashAlgos))] = hexish(r)
				}
				if r.Intn(5) == 0 {
					// next to them a digest of an algorithm CycloneDX has no name for (or only such a digest): it is
					// lost, the reference and its other digests are not
					if r.Intn(3) == 0 {
						er.Hashes = map[int32]string{}
					}
					er.Hashes[Pick(r, []int32{int32(sbom.HashAlgorithm_SHA224), int32(sbom.HashAlgorithm_MD4), int32(sbom.HashAlgorithm_ADLER32), int32(sbom.HashAlgorithm_MD6), 0, 99})] = hexish(r)
				}
			}
			n.ExternalReferences = append(n.ExternalReferences, er)
		}
		if r.Intn(4) == 0 {
			// the same reference listed again with other hashes (one download URL, once per digest), or with only
			// the comment changed: entries that agree in most of their fields are still distinct entries
			src := n.ExternalReferences[r.Intn(len(n.ExternalReferences))]
			dup := &sbom.ExternalReference{Type: src.Type, Url: src.Url, Comment: src.Comment}
			if r.Intn(3) == 0 {
				dup.Comment = txt()
				for a, v := range src.Hashes {
					if dup.Hashes == nil {
						dup.Hashes = map[int32]string{}
					}
					dup.Hashes[a] = v
				}
			} else {
				dup.Hashes = map[int32]string{int32(Pick(r, CDXHashAlgos)): hexish(r)}
			}
			n.ExternalReferences = append(n.ExternalReferences, dup)
		}
	}
	return n
}

// GluedKeyQuad returns identifiers P1, P2, C1, C2 such that the links P1>C1 and P2>C2 give the same string when
// parent and child are glued together with the separator drawn (possibly none): P1=x, C1=y+sep+z, P2=x+sep+y, C2=z.
func GluedKeyQuad(r *rand.Rand) []string {
	sep := Pick(r, []string{"", "", "/", ":", "|", ",", "-", ".", "#", "@", "+", "_", "->", "::", " "})
	tok := func() string { return string(rune('A'+r.Intn(26))) + string(rune('a'+r.Intn(26))) }
	for {
		x, y, z := tok(), tok(), tok()
		q := []string{x, x + sep + y, y + sep + z, z}
		distinct := x != y && y != z && x != z
		for i := range q {
			for j := i + 1; j < len(q); j++ {
				if q[i] == q[j] {
					distinct = false
				}
			}
		}
		if distinct {
			return q
		}
	}
}

func containsAny(xs, ys []string) bool {
	for _, x := range xs {
		for _, y := range ys {
			if x == y {
				return true
			}
		}
	}
	return false
}

// CDXTree draws a single-rooted containment tree. The returned parent map is the ground truth.
// depthBias: 0 random, 1 chain-like (deep), 2 star-like (wide).
func CDXTree(r *rand.Rand, k, ver, maxNodes int) (*sbom.Document, map[string]string, string) {
	doc := sbom.NewDocument()
	doc.Metadata.Id = "urn:uuid:" + hexish(r)
	doc.Metadata.Version = fmt.Sprint(1 + r.Intn(9))
	if ver == 15 && r.Intn(2) == 0 {
		for i := 0; i < 1+r.Intn(3); i++ {
			if r.Intn(3) == 0 {
				nm, ds := TextSafe(r, 6), TextSafe(r, 6)
				doc.Metadata.DocumentTypes = append(doc.Metadata.DocumentTypes, &sbom.DocumentType{Name: &nm, Description: &ds})
			} else {
				t := CDXLifecycles[(k+i)%len(CDXLifecycles)]
				doc.Metadata.DocumentTypes = append(doc.Metadata.DocumentTypes, &sbom.DocumentType{Type: &t})
			}
		}
	}
	n := 1 + r.Intn(maxNodes)
	ids := UniqueIDsSep(r, n, IDCdx, "1-./:|,+#@_ ")
	quad := false
	if n >= 5 && r.Intn(8) == 0 {
		if q := GluedKeyQuad(r); !containsAny(ids[:1], q) && !containsAny(ids[5:], q) {
			copy(ids[1:5], q)
			quad = true
		}
	}
	for i, id := range ids {
		doc.NodeList.Nodes = append(doc.NodeList.Nodes, CDXNode(r, id, ver, k, i == 0))
	}
	parent := map[string]string{}
	bias := k % 3
	children := map[string][]string{}
	for i := 1; i < n; i++ {
		var p int
		switch {
		case quad && i <= 2:
			p = 0
			parent[ids[i]] = ids[p]
			children[ids[p]] = append(children[ids[p]], ids[i])
			continue
		case quad && i <= 4:
			p = i - 2 // C1 under P1, C2 under P2
			parent[ids[i]] = ids[p]
			children[ids[p]] = append(children[ids[p]], ids[i])
			continue
		}
		switch bias {
		case 1:
			p = i - 1 // chain: depth n
			if r.Intn(4) == 0 {
				p = r.Intn(i)
			}
		case 2:
			p = 0
			if r.Intn(4) == 0 {
				p = r.Intn(i)
			}
		default:
			p = r.Intn(i)
		}
		parent[ids[i]] = ids[p]
		children[ids[p]] = append(children[ids[p]], ids[i])
	}
	grouped := r.Intn(2) == 0
	for _, id := range ids {
		ch := children[id]
		if len(ch) == 0 {
			continue
		}
		if grouped {
			doc.NodeList.Edges = append(doc.NodeList.Edges, &sbom.Edge{From: id, Type: sbom.Edge_contains, To: ch})
		} else {
			for _, c := range ch {
				doc.NodeList.Edges = append(doc.NodeList.Edges, &sbom.Edge{From: id, Type: sbom.Edge_contains, To: []string{c}})
			}
		}
	}
	doc.NodeList.RootElements = []string{ids[0]}
	shape := []string{"random-tree", "deep-tree", "wide-tree"}[bias]
	if quad {
		shape += "/with-glued-key-quadruple"
	}
	if grouped {
		shape += "/grouped-edges"
	} else {
		shape += "/split-edges"
	}
	return doc, parent, shape
}

// Permutations of 0..n-1 (n <= 5 is used).
func Permutations(n int) [][]int {
	var out [][]int
	var rec func(cur []int, used []bool)
	rec = func(cur []int, used []bool) {
		if len(cur) == n {
			out = append(out, append([]int{}, cur...))
			return
		}
		for i := 0; i < n; i++ {
			if !used[i] {
				used[i] = true
				rec(append(cur, i), used)
				used[i] = false
			}
		}
	}
	rec(nil, make([]bool, n))
	return out
}
