package gen

// Representative documents for the fault-injection workloads (C04, C05, C06). They are written by hand from the
// SPDX 2.3 and CycloneDX 1.4/1.5 JSON schemas, independently of protobom's writers.

const RepSPDX23 = `{
 "spdxVersion": "SPDX-2.3",
 "dataLicense": "CC0-1.0",
 "SPDXID": "SPDXRef-DOCUMENT",
 "name": "rep-doc",
 "documentNamespace": "https://example.com/spdxdocs/rep-1",
 "comment": "document comment",
 "externalDocumentRefs": [
  {"externalDocumentId": "DocumentRef-other", "spdxDocument": "https://example.com/other", "checksum": {"algorithm": "SHA1", "checksumValue": "d6a770ba38583ed4bb4525bd96e50461655d2759"}}
 ],
 "creationInfo": {
  "licenseListVersion": "3.20",
  "creators": ["Tool: gen-1.0", "Organization: ACME (info@acme.test)", "Person: Jane Doe (jane@acme.test)"],
  "created": "2023-11-15T20:34:58Z",
  "comment": "creator comment"
 },
 "hasExtractedLicensingInfos": [
  {"licenseId": "LicenseRef-1", "extractedText": "text", "name": "custom", "seeAlsos": ["https://example.com/l"]}
 ],
 "annotations": [
  {"annotationDate": "2023-11-15T20:34:58Z", "annotationType": "REVIEW", "annotator": "Person: Jane Doe", "comment": "ok"}
 ],
 "documentDescribes": ["SPDXRef-pkg-a"],
 "packages": [
  {
   "name": "pkg-a",
   "SPDXID": "SPDXRef-pkg-a",
   "versionInfo": "1.2.3",
   "packageFileName": "pkg-a.tar.gz",
   "supplier": "Organization: ACME (info@acme.test)",
   "originator": "Person: Jane Doe (jane@acme.test)",
   "downloadLocation": "https://example.com/pkg-a.tar.gz",
   "filesAnalyzed": true,
   "packageVerificationCode": {"packageVerificationCodeValue": "d6a770ba38583ed4bb4525bd96e50461655d2758", "packageVerificationCodeExcludedFiles": ["./x.spdx"]},
   "checksums": [
    {"algorithm": "SHA256", "checksumValue": "b51261db1ecadecf85274e811e537c5811a0ad1ab2a0121aeac4e3d031e1bf83"},
    {"algorithm": "SHA1", "checksumValue": "7df059597099bb7dcf25d2a9aedfaf4465f72d8d"}
   ],
   "homepage": "https://example.com/",
   "sourceInfo": "built from source",
   "licenseConcluded": "Apache-2.0",
   "licenseInfoFromFiles": ["Apache-2.0", "MIT"],
   "licenseDeclared": "Apache-2.0",
   "licenseComments": "license comment",
   "copyrightText": "Copyright 2023 ACME",
   "summary": "summary",
   "description": "description",
   "comment": "package comment",
   "externalRefs": [
    {"referenceCategory": "PACKAGE-MANAGER", "referenceType": "purl", "referenceLocator": "pkg:generic/pkg-a@1.2.3", "comment": "ref comment"},
    {"referenceCategory": "SECURITY", "referenceType": "cpe23Type", "referenceLocator": "cpe:2.3:a:acme:pkg-a:1.2.3:*:*:*:*:*:*:*"},
    {"referenceCategory": "SECURITY", "referenceType": "advisory", "referenceLocator": "https://example.com/adv"},
    {"referenceCategory": "PERSISTENT-ID", "referenceType": "gitoid", "referenceLocator": "gitoid:blob:sha1:261eeb9e9f8b2b4b0d119366dda99c6fd7d35c64"},
    {"referenceCategory": "OTHER", "referenceType": "custom", "referenceLocator": "anything"}
   ],
   "attributionTexts": ["attribution one", "attribution two"],
   "primaryPackagePurpose": "LIBRARY",
   "releaseDate": "2023-11-15T20:34:58Z",
   "builtDate": "2023-11-14T20:34:58Z",
   "validUntilDate": "2024-11-15T20:34:58Z",
   "hasFiles": ["SPDXRef-file-a"],
   "annotations": [
    {"annotationDate": "2023-11-15T20:34:58Z", "annotationType": "OTHER", "annotator": "Tool: x", "comment": "c"}
   ]
  },
  {
   "name": "pkg-b",
   "SPDXID": "SPDXRef-pkg-b",
   "downloadLocation": "NOASSERTION",
   "filesAnalyzed": false,
   "licenseConcluded": "NOASSERTION",
   "copyrightText": "NONE",
   "supplier": "NOASSERTION",
   "primaryPackagePurpose": "OPERATING-SYSTEM"
  }
 ],
 "files": [
  {
   "fileName": "./src/a.c",
   "SPDXID": "SPDXRef-file-a",
   "fileTypes": ["SOURCE", "TEXT"],
   "checksums": [{"algorithm": "SHA1", "checksumValue": "d6a770ba38583ed4bb4525bd96e50461655d2758"}],
   "licenseConcluded": "MIT",
   "licenseInfoInFiles": ["MIT"],
   "licenseComments": "file license comment",
   "copyrightText": "Copyright 2023 Jane",
   "comment": "file comment",
   "noticeText": "notice",
   "fileContributors": ["Jane"],
   "attributionTexts": ["file attribution"]
  },
  {
   "fileName": "./bin/b",
   "SPDXID": "SPDXRef-file-b",
   "checksums": [{"algorithm": "MD5", "checksumValue": "624c1abb3664f4b35547e7c73864ad24"}],
   "copyrightText": "NOASSERTION"
  }
 ],
 "snippets": [
  {"SPDXID": "SPDXRef-snippet", "snippetFromFile": "SPDXRef-file-a", "ranges": [{"startPointer": {"offset": 1, "reference": "SPDXRef-file-a"}, "endPointer": {"offset": 2, "reference": "SPDXRef-file-a"}}], "licenseConcluded": "MIT", "copyrightText": "NONE", "name": "snip"}
 ],
 "relationships": [
  {"spdxElementId": "SPDXRef-DOCUMENT", "relationshipType": "DESCRIBES", "relatedSpdxElement": "SPDXRef-pkg-a"},
  {"spdxElementId": "SPDXRef-pkg-a", "relationshipType": "DEPENDS_ON", "relatedSpdxElement": "SPDXRef-pkg-b", "comment": "rel comment"},
  {"spdxElementId": "SPDXRef-pkg-a", "relationshipType": "CONTAINS", "relatedSpdxElement": "SPDXRef-file-b"},
  {"spdxElementId": "SPDXRef-file-b", "relationshipType": "GENERATED_FROM", "relatedSpdxElement": "SPDXRef-file-a"},
  {"spdxElementId": "SPDXRef-pkg-b", "relationshipType": "DEPENDS_ON", "relatedSpdxElement": "NOASSERTION"}
 ]
}`

func repCDX(ver string, extra string) string {
	return `{
 "bomFormat": "CycloneDX",
 "specVersion": "` + ver + `",
 "serialNumber": "urn:uuid:3e671687-395b-41f5-a30f-a58921a69b79",
 "version": 3,
 "metadata": {
  "timestamp": "2023-11-15T20:34:58Z",` + extra + `
  "tools": [{"vendor": "acme", "name": "gen", "version": "1.0", "hashes": [{"alg": "SHA-1", "content": "d6a770ba38583ed4bb4525bd96e50461655d2758"}]}],
  "authors": [{"name": "Jane Doe", "email": "jane@acme.test", "phone": "123"}],
  "component": {
   "bom-ref": "root-app",
   "type": "application",
   "name": "root app",
   "version": "9.1.1",
   "description": "root description",
   "supplier": {"name": "ACME", "url": ["https://acme.test"], "contact": [{"name": "c", "email": "c@acme.test", "phone": "1"}]},
   "licenses": [{"license": {"id": "Apache-2.0"}}],
   "purl": "pkg:generic/root-app@9.1.1",
   "externalReferences": [{"type": "website", "url": "https://acme.test", "comment": "home", "hashes": [{"alg": "SHA-256", "content": "b51261db1ecadecf85274e811e537c5811a0ad1ab2a0121aeac4e3d031e1bf83"}]}]
  },
  "supplier": {"name": "ACME"},
  "licenses": [{"expression": "MIT OR Apache-2.0"}],
  "properties": [{"name": "k", "value": "v"}]
 },
 "components": [
  {
   "bom-ref": "lib-a",
   "type": "library",
   "group": "org.acme",
   "name": "lib-a",
   "version": "1.0.0",
   "description": "a library",
   "scope": "required",
   "hashes": [
    {"alg": "MD5", "content": "3942447fac867ae5cdb3229b658f4d48"},
    {"alg": "SHA-256", "content": "f498a8ff2dd007e29c2074f5e4b01a9a01775c3ff3aeaf6906ea503bc5791b7b"},
    {"alg": "BLAKE3", "content": "aa51dcd43d5c6c5203ee16906fd6b35db298b9b2e1de3fce81811d4806b76b7d"}
   ],
   "licenses": [
    {"license": {"id": "Apache-2.0", "url": "https://www.apache.org/licenses/LICENSE-2.0.txt"}},
    {"license": {"name": "custom license", "text": {"contentType": "text/plain", "content": "text"}}},
    {"expression": "MIT OR ISC"}
   ],
   "copyright": "Copyright 2023 ACME",
   "cpe": "cpe:2.3:a:acme:lib-a:1.0.0:*:*:*:*:*:*:*",
   "purl": "pkg:maven/org.acme/lib-a@1.0.0",
   "swid": {"tagId": "swidgen-1", "name": "lib-a", "version": "1.0.0"},
   "pedigree": {"ancestors": [{"type": "library", "name": "ancestor", "version": "0.9"}], "notes": "n"},
   "externalReferences": [
    {"type": "vcs", "url": "https://git.acme.test/lib-a", "comment": "source"},
    {"type": "distribution", "url": "https://dl.acme.test/lib-a.jar", "hashes": [{"alg": "SHA-1", "content": "e6b1000b94e835ffd37f4c6dcbdad43f4b48a02a"}]}
   ],
   "properties": [{"name": "p", "value": "q"}],
   "evidence": {"licenses": [{"license": {"id": "MIT"}}], "copyright": [{"text": "c"}]},
   "components": [
    {
     "bom-ref": "lib-a-inner",
     "type": "file",
     "name": "inner.so",
     "version": "1",
     "hashes": [{"alg": "SHA-1", "content": "e6b1000b94e835ffd37f4c6dcbdad43f4b48a02a"}],
     "components": [
      {"type": "library", "name": "no-ref-leaf", "version": "0.1"}
     ]
    }
   ]
  },
  {
   "type": "container",
   "name": "no-ref-container",
   "version": "2",
   "cpe": "cpe:/a:acme:container:2"
  },
  {
   "bom-ref": "os-b",
   "type": "operating-system",
   "name": "os-b",
   "version": "11"
  }
 ],
 "services": [{"bom-ref": "svc", "name": "svc", "endpoints": ["https://svc.acme.test"], "data": [{"flow": "inbound", "classification": "PII"}]}],
 "externalReferences": [{"type": "bom", "url": "https://acme.test/bom"}],
 "dependencies": [
  {"ref": "root-app", "dependsOn": ["lib-a", "os-b"]},
  {"ref": "lib-a", "dependsOn": ["os-b"]}
 ],
 "compositions": [{"aggregate": "complete", "assemblies": ["lib-a"], "dependencies": ["root-app"]}],
 "vulnerabilities": [{"id": "CVE-2023-0001", "source": {"name": "NVD"}, "ratings": [{"score": 9.8, "severity": "critical", "method": "CVSSv31"}], "affects": [{"ref": "lib-a"}]}]
}`
}

var RepCDX14 = repCDX("1.4", "")

var RepCDX15 = repCDX("1.5", `
  "lifecycles": [{"phase": "build"}, {"phase": "post-build"}, {"name": "custom phase", "description": "custom"}],`)

// RepCDXNested: containment four levels deep with duplicate and missing bom-refs.
const RepCDXNested = `{
 "bomFormat": "CycloneDX",
 "specVersion": "1.5",
 "version": 1,
 "metadata": {"component": {"bom-ref": "top", "type": "application", "name": "top"}},
 "components": [
  {"bom-ref": "l1", "type": "library", "name": "l1", "version": "1", "components": [
   {"bom-ref": "l2", "type": "library", "name": "l2", "version": "1", "components": [
    {"bom-ref": "l3", "type": "library", "name": "l3", "version": "1", "components": [
     {"bom-ref": "l4", "type": "file", "name": "l4"}
    ]},
    {"type": "library", "name": "anon", "version": "1"}
   ]}
  ]},
  {"bom-ref": "l2", "type": "library", "name": "dup-ref", "version": "2"},
  {"type": "library", "name": "anon", "version": "1"}
 ],
 "dependencies": [{"ref": "top", "dependsOn": ["l1"]}, {"ref": "l1", "dependsOn": ["l2", "l3"]}]
}`

var RepDocs = []struct {
	Name string
	JSON string
}{
	{"spdx-2.3", RepSPDX23}, {"cdx-1.4", RepCDX14}, {"cdx-1.5", RepCDX15}, {"cdx-nested", RepCDXNested},
}
