package props

import (
	"github.com/protobom/protobom/pkg/sbom"
	"google.golang.org/protobuf/proto"
	"verifharness/internal/core"
	"verifharness/internal/gen"
)

// C10 — Intersect against the bounds model of the statement.

func init() {
	core.Register(&core.Prop{
		ID: "C10", Level: "exploration",
		Rule: "each case draws node lists A,B over a 5-id universe and 2 edge types (a quarter of the cases: identifiers and type numbers that concatenate alike, 4 edge types) in one of seven pair classes (independent, disjoint, nested, identical, cyclic, ill-formed, near-equal nodes that differ only in sub-second date parts and list order), shared nodes with reflection-populated attributes. " +
			"Monitored on X=A.Intersect(B): ids(X)=ids(A)∩ids(B); roots(X) within (roots(A)∪roots(B))∩ids(X) and containing roots(A)∩roots(B)∩ids(X); edge triples of X within (E(A)∪E(B)) restricted to ids(X) and containing (E(A)∩E(B)) restricted; " +
			"idempotence, commutativity (equal sets), absorption ids(A∩(A∪B))=ids(A), emptiness against the empty list, attribute precedence per schema field (argument wins when non-empty). " +
			"distinct = hash of canonical (A,B); non-trivial = at least one shared node.",
		Assumptions: []string{"node ids are unique within one operand", "list-valued attributes are compared as multisets", "id and type are excluded from the precedence rule"},
		NCases: func(tier string) int {
			if tier == "thorough" {
				return 1000000
			}
			return 60000
		},
		Case: c10Case,
	})
}

func c10Pair(c *core.C) (*sbom.NodeList, *sbom.NodeList, string) {
	r := c.R
	class := []string{"independent", "disjoint", "nested", "identical", "cyclic", "ill-formed", "near-equal-nodes"}[c.K%7]
	mk := func(ids []string, ill bool, pe float64) *sbom.NodeList {
		return gen.RandomNodeList(r, gen.GraphOpts{Universe: ids, EdgeTypes: c09Types, PNode: 0.5 + 0.5*r.Float64(), PEdge: pe, PRoot: 0.6 * r.Float64(), IllFormed: ill, NodeMaker: attrNodeMaker})
	}
	switch class {
	case "disjoint":
		return mk(c09IDs[:2], false, 0.4), mk(c09IDs[2:], false, 0.4), class
	case "nested":
		a := mk(c09IDs, false, 0.3)
		b := gen.Clone(a)
		var rm []string
		for _, n := range b.Nodes {
			if r.Intn(2) == 0 {
				rm = append(rm, n.Id)
			}
		}
		keep := gen.Minus(gen.IDSet(b), toSet(rm))
		nb := &sbom.NodeList{}
		for _, n := range b.Nodes {
			if keep.Has(n.Id) {
				nb.Nodes = append(nb.Nodes, attrNodeMaker(r, n.Id))
			}
		}
		for _, e := range b.Edges {
			if !keep.Has(e.From) {
				continue
			}
			var tos []string
			for _, t := range e.To {
				if keep.Has(t) {
					tos = append(tos, t)
				}
			}
			if len(tos) > 0 {
				nb.Edges = append(nb.Edges, &sbom.Edge{From: e.From, Type: e.Type, To: tos})
			}
		}
		for _, x := range b.RootElements {
			if keep.Has(x) {
				nb.RootElements = append(nb.RootElements, x)
			}
		}
		if r.Intn(2) == 0 {
			return nb, a, class
		}
		return a, nb, class
	case "identical":
		a := mk(c09IDs, false, 0.3)
		return a, gen.ShuffledPresentation(r, a), class
	case "near-equal-nodes":
		// the same graph, every shared node differing only in what equality ignores: sub-second date parts
		// (and the order of set-valued attributes). The second operand's value must still win.
		a := mk(c09IDs, false, 0.3)
		b := gen.ShuffledPresentation(r, a)
		for i, n := range b.Nodes {
			b.Nodes[i] = permuteNode(r, n)
			for _, t := range []**timestampT{&b.Nodes[i].ReleaseDate, &b.Nodes[i].BuildDate, &b.Nodes[i].ValidUntilDate} {
				if *t != nil {
					(*t).Nanos = int32(r.Intn(1000000000))
				}
			}
		}
		return a, b, class
	case "cyclic":
		return mk(c09IDs, false, 0.6), mk(c09IDs, false, 0.6), class
	case "ill-formed":
		return mk(c09IDs, true, 0.3), mk(c09IDs, true, 0.3), class
	}
	if r.Intn(15) == 0 {
		return mk(c09IDs, false, 0.3), &sbom.NodeList{}, class
	}
	return mk(c09IDs, false, 0.3), mk(c09IDs, false, 0.3), class
}

func c10Case(c *core.C) {
	c.Cover(c09Universe(c.K))
	A, B, class := c10Pair(c)
	c.Cover("class:" + class)
	det := map[string]any{"A": gen.Canon(A), "B": gen.Canon(B), "class": class}
	a0, b0 := gen.Clone(A), gen.Clone(B)
	defer func() {
		if !proto.Equal(A, a0) || !proto.Equal(B, b0) {
			c.Violatef("intersect-changed-its-operand", map[string]any{"A": gen.Canon(a0), "B": gen.Canon(b0)}, "after the intersections of this case an operand is no longer what it was: A %s -> %s, B %s -> %s", gen.Canon(a0), gen.Canon(A), gen.Canon(b0), gen.Canon(B))
		}
	}()
	var X, Y, AA, ABU, AE, EA *sbom.NodeList
	if guard(c, "Intersect", det, func() {
		// all calls work on the same operand values (compared with their snapshots at the end of the case)
		X = A.Intersect(B)
		Y = B.Intersect(A)
		AA = A.Intersect(A)
		ABU = A.Intersect(A.Union(B))
		AE = A.Intersect(&sbom.NodeList{})
		EA = (&sbom.NodeList{}).Intersect(A)
	}) {
		return
	}
	c.Evals(6)
	if X == nil || Y == nil || AA == nil || ABU == nil || AE == nil || EA == nil {
		c.Violatef("intersect-nil", det, "Intersect returned nil")
		return
	}
	ids := gen.Inter(gen.IDSet(A), gen.IDSet(B))
	if len(ids) > 0 {
		c.DistinctStr(gen.Canon(A) + "|" + gen.Canon(B))
		if c.WantSample() && len(A.Edges) > 0 {
			c.Sample(det)
		}
	}
	xi, xr, xt := gen.IDSet(X), gen.RootSet(X), gen.TripleSet(X)
	if !xi.Equal(ids) || len(X.Nodes) != len(ids) {
		c.Violatef("intersect-nodes", det, "nodes %s (%d entries), want %s; A=%s B=%s", xi, len(X.Nodes), ids, gen.Canon(A), gen.Canon(B))
		return
	}
	rootsUpper := gen.Inter(gen.Union(gen.RootSet(A), gen.RootSet(B)), ids)
	rootsLower := gen.Inter(gen.Inter(gen.RootSet(A), gen.RootSet(B)), ids)
	if !xr.Subset(rootsUpper) {
		c.Violatef("intersect-roots-invented", det, "roots %s not within %s; A=%s B=%s", xr, rootsUpper, gen.Canon(A), gen.Canon(B))
		return
	}
	if !rootsLower.Subset(xr) {
		c.Violatef("intersect-roots-lost", det, "roots %s miss a common surviving root of %s; A=%s B=%s", xr, rootsLower, gen.Canon(A), gen.Canon(B))
		return
	}
	if len(X.RootElements) != len(xr) {
		c.Violatef("intersect-roots-duplicated", det, "root list %v has duplicates", X.RootElements)
		return
	}
	upper := gen.Union(gen.TriplesAmong(A, ids), gen.TriplesAmong(B, ids))
	lower := gen.Inter(gen.TriplesAmong(A, ids), gen.TriplesAmong(B, ids))
	if !xt.Subset(upper) {
		c.Violatef("intersect-edges-invented", det, "edges %s not within %s; A=%s B=%s", xt, upper, gen.Canon(A), gen.Canon(B))
		return
	}
	if !lower.Subset(xt) {
		c.Violatef("intersect-edges-lost", det, "edges %s miss a common surviving edge of %s; A=%s B=%s", xt, lower, gen.Canon(A), gen.Canon(B))
		return
	}
	// commutativity on the three sets
	c.Cover("law:commutativity")
	if !gen.IDSet(Y).Equal(xi) || !gen.RootSet(Y).Equal(xr) || !gen.TripleSet(Y).Equal(xt) {
		c.Violatef("intersect-commutativity", det, "A∩B = %s but B∩A = %s", gen.Canon(X), gen.Canon(Y))
		return
	}
	// idempotence against A restricted to its own present nodes
	c.Cover("law:idempotence")
	ai := gen.IDSet(A)
	if !gen.IDSet(AA).Equal(ai) || !gen.RootSet(AA).Equal(gen.Inter(gen.RootSet(A), ai)) || !gen.TripleSet(AA).Equal(gen.TriplesAmong(A, ai)) {
		c.Violatef("intersect-idempotence", det, "A∩A = %s for A = %s", gen.Canon(AA), gen.Canon(A))
		return
	}
	c.Cover("law:absorption")
	if !gen.IDSet(ABU).Equal(ai) {
		c.Violatef("intersect-absorption", det, "ids(A∩(A∪B)) = %s, want %s", gen.IDSet(ABU), ai)
		return
	}
	c.Cover("law:empty")
	if len(AE.Nodes)+len(AE.Edges)+len(AE.RootElements)+len(EA.Nodes)+len(EA.Edges)+len(EA.RootElements) != 0 {
		c.Violatef("intersect-empty", det, "intersection with the empty list is not empty: %s / %s", gen.Canon(AE), gen.Canon(EA))
		return
	}
	for id := range ids {
		c.Evals(1)
		c.Cover("shared-node-attribute-checks")
		if f, why := precedenceCheck(nodeByID(X, id), nodeByID(b0, id), nodeByID(a0, id)); why != "" {
			c.Violatef("intersect-attr-"+f, det, "Intersect: node %s: %s", id, why)
			return
		}
	}
	// "the same rule as union": whatever union does with a shared node (its kind included), intersection does too
	var U *sbom.NodeList
	if guard(c, "Union", det, func() { U = A.Union(B) }) {
		return
	}
	for id := range ids {
		xn, un := nodeByID(X, id), nodeByID(U, id)
		if xn == nil || un == nil {
			continue
		}
		c.Evals(1)
		if xn.Type != un.Type {
			c.Violatef("intersect-differs-from-union-rule:type", det, "shared node %s: intersection gives kind %s, union of the same operands gives %s (operands have %s and %s)", id, xn.Type, un.Type, nodeByID(a0, id).Type, nodeByID(b0, id).Type)
			return
		}
		if !proto.Equal(xn, un) {
			c.Violatef("intersect-differs-from-union-rule", det, "shared node %s differs between A∩B and A∪B: %s", id, firstDiff(un, xn))
			return
		}
	}
}
