package props

import (
	"bytes"
	"fmt"
	"io"
	"math/rand"
	"os"
	"path/filepath"
	"reflect"
	"sort"
	"strings"
	"sync"
	"sync/atomic"

	"github.com/protobom/protobom/pkg/formats"
	"github.com/protobom/protobom/pkg/native"
	"github.com/protobom/protobom/pkg/sbom"
	"github.com/protobom/protobom/pkg/storage"
	"github.com/protobom/protobom/pkg/writer"
	"google.golang.org/protobuf/proto"
	"verifharness/internal/core"
	"verifharness/internal/gen"
)

// C11 — read-only and value-returning operations leave operands unchanged (snapshot monitor + race detector).

type nopWC struct{ io.Writer }

func (nopWC) Close() error { return nil }

type c11Env struct {
	doc   *sbom.Document // single root, well-formed, fully populated
	nl2   *sbom.NodeList // overlaps doc's ids
	nl3   *sbom.NodeList // the same graph as nl2 in another presentation (same sizes, unsorted roots and targets)
	probe *sbom.Node
	n2    *sbom.Node
	edge  *sbom.Edge
	edge2 *sbom.Edge
	pers  *sbom.Person
	xref  *sbom.ExternalReference
	ids   []string
	dir   string
	r     *rand.Rand // only for the snapshot (sequential) part
}

func (e *c11Env) operands() []proto.Message {
	return []proto.Message{e.doc, e.nl2, e.probe, e.n2, e.edge, e.edge2, e.pers, e.xref, e.nl3}
}

func c11Build(r *rand.Rand, dir string) *c11Env {
	o := gen.DefaultPop()
	o.PFill = 0.85
	o.Depth = 3
	o.Text = func(r *rand.Rand) string { return gen.ValidUTF8Any(r, 8) }
	if r.Intn(3) == 0 {
		o.MaxList = 14 // lists long enough to cross the small-size thresholds of sort/search shortcuts
	}
	n := 3 + r.Intn(6)
	ids := make([]string, n)
	for i := range ids {
		ids[i] = fmt.Sprintf("n%d", i)
	}
	mk := func(r *rand.Rand, id string) *sbom.Node { return gen.Node(r, id, o) }
	nl := gen.RandomNodeList(r, gen.GraphOpts{Universe: ids, EdgeTypes: []sbom.Edge_Type{sbom.Edge_contains, sbom.Edge_dependsOn, sbom.Edge_other}, PNode: 1, PEdge: 0.3, PRoot: 0, NodeMaker: mk, SplitEdges: r.Intn(3) == 0})
	// unsorted multi-element targets and several roots in non-sorted order: in-place sorting becomes observable
	nl.RootElements = []string{ids[0]}
	idx := map[string]int{}
	for i, id := range ids {
		idx[id] = i
	}
	kept := nl.Edges[:0]
	for _, e := range nl.Edges {
		if e.Type == sbom.Edge_contains {
			// containment stays acyclic (cyclic containment is C07's subject, not C11's)
			var tos []string
			for _, t := range e.To {
				if idx[t] > idx[e.From] {
					tos = append(tos, t)
				}
			}
			e.To = tos
		}
		sort.Sort(sort.Reverse(sort.StringSlice(e.To)))
		if len(e.To) > 0 {
			kept = append(kept, e)
		}
	}
	nl.Edges = kept
	if r.Intn(2) == 0 {
		// edge records without targets, between the others (a legal value that callers and decoders produce)
		for i := 0; i < 1+r.Intn(2); i++ {
			at := r.Intn(len(nl.Edges) + 1)
			e := &sbom.Edge{From: gen.Pick(r, ids), Type: gen.Pick(r, []sbom.Edge_Type{sbom.Edge_contains, sbom.Edge_dependsOn}), To: []string{}}
			nl.Edges = append(nl.Edges[:at], append([]*sbom.Edge{e}, nl.Edges[at:]...)...)
		}
	}
	if r.Intn(4) == 0 && len(nl.Nodes) >= 2 {
		// two stored nodes with one identifier and different content (a list a caller assembled by hand or a
		// decoder delivered): nothing read-only may reconcile them on the operand
		dup := mk(r, nl.Nodes[r.Intn(len(nl.Nodes))].Id)
		at := r.Intn(len(nl.Nodes) + 1)
		nl.Nodes = append(nl.Nodes[:at], append([]*sbom.Node{dup}, nl.Nodes[at:]...)...)
	}
	// realistic package URLs in several spellings (the purl lookups otherwise never match anything)
	for _, nd := range nl.Nodes {
		if r.Intn(2) == 0 {
			if nd.Identifiers == nil {
				nd.Identifiers = map[int32]string{}
			}
			nd.Identifiers[int32(sbom.SoftwareIdentifierType_PURL)] = gen.Pick(r, c11Purls)
		}
	}
	md := &sbom.Metadata{}
	gen.Populate(r, md.ProtoReflect(), o)
	md.Id = "urn:uuid:doc-" + fmt.Sprint(r.Intn(1000))
	if r.Intn(3) == 0 {
		md.Id = "" // a document without identifier: nothing may fill it in on the operand
	}
	md.Version = "1"
	if r.Intn(4) == 0 {
		md.Version = ""
	}
	for _, dt := range md.DocumentTypes { // all three optional fields present (absent ones are C07's subject)
		nm, ds, ty := "custom", "d", sbom.DocumentType_BUILD
		if dt.Name == nil {
			dt.Name = &nm
		}
		if dt.Description == nil {
			dt.Description = &ds
		}
		if dt.Type == nil {
			dt.Type = &ty
		}
	}
	// the second list is well-formed but often NOT normalised: several stored edges with the same source and type
	nl2 := gen.RandomNodeList(r, gen.GraphOpts{Universe: append(append([]string{}, ids[:n/2]...), "x1", "x2"), EdgeTypes: []sbom.Edge_Type{sbom.Edge_contains}, PNode: 0.8, PEdge: 0.4, PRoot: 0.5, NodeMaker: mk, SplitEdges: r.Intn(2) == 0})
	// several roots in descending order
	sort.Sort(sort.Reverse(sort.StringSlice(nl2.RootElements)))
	// at least two roots, stored in descending order, so that in-place sorting is observable
	if len(nl2.RootElements) < 2 {
		for _, n := range nl2.Nodes {
			nl2.RootElements = append(nl2.RootElements, n.Id)
		}
		nl2.RootElements = gen.Set.Keys(toSet(nl2.RootElements))
		sort.Sort(sort.Reverse(sort.StringSlice(nl2.RootElements)))
	}
	nl3 := gen.ShuffledPresentation(r, nl2)
	sort.Sort(sort.Reverse(sort.StringSlice(nl3.RootElements)))
	// every slice of the shared operands has spare capacity (as slices grown by append have): an operation that
	// appends to an operand's slice instead of a copy then writes into memory the operand owns - invisible to a
	// snapshot of its elements, but a write all the same when two such calls overlap
	spareList(nl)
	spareList(nl2)
	spareList(nl3)
	env := &c11Env{doc: &sbom.Document{Metadata: md, NodeList: nl}, nl2: nl2, nl3: nl3, ids: ids, dir: dir, r: r}
	env.probe = mk(r, "probe")
	env.n2 = mk(r, ids[0])
	env.edge = &sbom.Edge{From: "a", Type: sbom.Edge_contains, To: []string{"z", "y", "x", "b"}}
	env.edge2 = &sbom.Edge{From: "a", Type: sbom.Edge_contains, To: []string{"y", "z", "b", "x"}}
	env.pers = &sbom.Person{}
	gen.Populate(r, env.pers.ProtoReflect(), o)
	env.xref = &sbom.ExternalReference{}
	gen.Populate(r, env.xref.ProtoReflect(), o)
	return env
}

var c11Purls = []string{"pkg:npm/left-pad@1.0.0", "pkg:/npm/left-pad@1.0.0", "pkg:/apk/wolfi/bash@4.0.1", "pkg:apk/wolfi/bash@4.0.1", "pkg:deb/debian/bash@5?arch=amd64", "pkg:/deb/debian/bash@5", "pkg:golang/x/y@v1", "PKG:NPM/Upper@2", "pkg:npm/%40scope/name@1", "pkg://npm/x@1"}

type c11Op struct {
	name string
	fn   func(e *c11Env, r *rand.Rand)
}

var c11Writer *writer.Writer
var c11WriterOnce sync.Once
var c11Formats = []formats.Format{formats.SPDX23JSON, formats.CDX10JSON, formats.CDX11JSON, formats.CDX12JSON, formats.CDX13JSON, formats.CDX14JSON, formats.CDX15JSON}

func c11Ops() []c11Op {
	c11WriterOnce.Do(func() { c11Writer = writer.New() })
	nl := func(e *c11Env) *sbom.NodeList { return e.doc.NodeList }
	node := func(e *c11Env, r *rand.Rand) *sbom.Node { return nl(e).Nodes[r.Intn(len(nl(e).Nodes))] }
	ops := []c11Op{
		{"NodeList.Equal", func(e *c11Env, r *rand.Rand) {
			nl(e).Equal(e.nl2)
			e.nl2.Equal(nl(e))
			nl(e).Equal(nl(e))
			e.nl2.Equal(e.nl3) // same sizes: the comparison goes all the way
			e.nl3.Equal(e.nl2)
		}},
		{"NodeList.Copy", func(e *c11Env, r *rand.Rand) { nl(e).Copy() }},
		{"NodeList.Union", func(e *c11Env, r *rand.Rand) { nl(e).Union(e.nl2); e.nl2.Union(nl(e)) }},
		{"NodeList.Intersect", func(e *c11Env, r *rand.Rand) { nl(e).Intersect(e.nl2); e.nl2.Intersect(nl(e)) }},
		{"NodeList.GetNodeByID", func(e *c11Env, r *rand.Rand) { nl(e).GetNodeByID(gen.Pick(r, e.ids)) }},
		{"NodeList.GetNodesByName", func(e *c11Env, r *rand.Rand) { nl(e).GetNodesByName(node(e, r).Name) }},
		{"NodeList.GetNodesByIdentifier", func(e *c11Env, r *rand.Rand) { nl(e).GetNodesByIdentifier("purl", node(e, r).Identifiers[1]) }},
		{"NodeList.GetNodesByPurlType", func(e *c11Env, r *rand.Rand) {
			for _, t := range []string{"npm", "apk", "deb", "golang", ""} {
				nl(e).GetNodesByPurlType(t)
			}
		}},
		{"NodeList.GetRootNodes", func(e *c11Env, r *rand.Rand) { nl(e).GetRootNodes(); e.nl2.GetRootNodes() }},
		{"Document.GetRootNodes", func(e *c11Env, r *rand.Rand) { e.doc.GetRootNodes() }},
		{"NodeList.GetEdgeByType", func(e *c11Env, r *rand.Rand) { nl(e).GetEdgeByType(gen.Pick(r, e.ids), sbom.Edge_contains) }},
		{"NodeList.GetMatchingNode", func(e *c11Env, r *rand.Rand) {
			_, _ = nl(e).GetMatchingNode(e.probe)
			_, _ = nl(e).GetMatchingNode(node(e, r))
		}},
		{"NodeList.NodeGraph", func(e *c11Env, r *rand.Rand) { nl(e).NodeGraph(gen.Pick(r, e.ids)) }},
		{"NodeList.NodeSiblings", func(e *c11Env, r *rand.Rand) { nl(e).NodeSiblings(gen.Pick(r, e.ids)) }},
		{"NodeList.NodeDescendants", func(e *c11Env, r *rand.Rand) { nl(e).NodeDescendants(gen.Pick(r, e.ids), 1+r.Intn(4)) }},
		{"Node.Equal", func(e *c11Env, r *rand.Rand) { node(e, r).Equal(e.n2); e.n2.Equal(node(e, r)) }},
		{"Node.Checksum", func(e *c11Env, r *rand.Rand) { node(e, r).Checksum() }},
		{"Node.Diff", func(e *c11Env, r *rand.Rand) { node(e, r).Diff(e.n2); e.n2.Diff(node(e, r)) }},
		{"Node.Copy", func(e *c11Env, r *rand.Rand) { node(e, r).Copy() }},
		{"Node.Purl", func(e *c11Env, r *rand.Rand) { node(e, r).Purl() }},
		{"Node.HashesMatch", func(e *c11Env, r *rand.Rand) { node(e, r).HashesMatch(e.probe.Hashes) }},
		{"Edge.Equal", func(e *c11Env, r *rand.Rand) {
			e.edge.Equal(e.edge2)
			if len(nl(e).Edges) > 0 {
				nl(e).Edges[r.Intn(len(nl(e).Edges))].Equal(e.edge)
			}
		}},
		{"Edge.Copy", func(e *c11Env, r *rand.Rand) { e.edge.Copy() }},
		{"Edge.PointsTo", func(e *c11Env, r *rand.Rand) { e.edge.PointsTo("x") }},
		{"Person.Copy", func(e *c11Env, r *rand.Rand) { e.pers.Copy() }},
		{"Person.ToSPDX2ClientString", func(e *c11Env, r *rand.Rand) { _ = e.pers.ToSPDX2ClientString(); _ = e.pers.ToSPDX2ClientOrg() }},
		{"ExternalReference.Copy", func(e *c11Env, r *rand.Rand) { e.xref.Copy() }},
		{"enum-helpers", func(e *c11Env, r *rand.Rand) {
			_ = sbom.Edge_Type(r.Intn(46)).ToSPDX2()
			_ = sbom.HashAlgorithm(r.Intn(19)).ToSPDX()
			_ = sbom.HashAlgorithm(r.Intn(19)).ToSPDX3()
			_ = sbom.SoftwareIdentifierType(r.Intn(6)).ToSPDX2Category()
			_ = sbom.SoftwareIdentifierTypeFromString("purl")
		}},
		{"storage.Store", func(e *c11Env, r *rand.Rand) {
			fs := storage.NewFileSystem()
			fs.Options.Path = e.dir
			_ = fs.Store(e.doc, &storage.StoreOptions{})
		}},
	}
	for _, f := range c11Formats {
		f := f
		ops = append(ops, c11Op{"writer.WriteStream[" + string(f) + "]", func(e *c11Env, r *rand.Rand) {
			var buf bytes.Buffer
			_ = c11Writer.WriteStreamWithOptions(e.doc, nopWC{&buf}, &writer.Options{Format: f, RenderOptions: &native.RenderOptions{Indent: 2}, SerializeOptions: &native.SerializeOptions{}})
		}})
	}
	return ops
}

// method classification: a public method that is in none of the lists makes the run inconclusive.
var c11ReadOnly = toSet([]string{
	"Node.Diff", "Node.Copy", "Node.Equal", "Node.Checksum", "Node.Purl", "Node.HashesMatch",
	"Document.GetRootNodes", "Edge.Copy", "Edge.PointsTo", "Edge.Equal", "ExternalReference.Copy",
	"NodeList.GetEdgeByType", "NodeList.Copy", "NodeList.Intersect", "NodeList.Union", "NodeList.GetNodesByName", "NodeList.GetNodeByID",
	"NodeList.GetMatchingNode", "NodeList.GetNodesByIdentifier", "NodeList.GetRootNodes", "NodeList.Equal", "NodeList.GetNodesByPurlType",
	"NodeList.NodeGraph", "NodeList.NodeSiblings", "NodeList.NodeDescendants",
	"Person.ToSPDX2ClientString", "Person.ToSPDX2ClientOrg", "Person.Copy",
})
var c11Mutators = toSet([]string{
	"Node.Update", "Node.Augment", "Node.AddHash", "Edge.AddDestinationById",
	"NodeList.AddEdge", "NodeList.AddRootNode", "NodeList.AddNode", "NodeList.Add", "NodeList.RemoveNodes", "NodeList.RelateNodeAtID", "NodeList.RelateNodeListAtID",
})

func c11UnclassifiedMethods() []string {
	var out []string
	for _, m := range []proto.Message{&sbom.Node{}, &sbom.NodeList{}, &sbom.Edge{}, &sbom.Person{}, &sbom.ExternalReference{}, &sbom.Document{}, &sbom.Metadata{}, &sbom.Tool{}, &sbom.DocumentType{}} {
		t := reflect.TypeOf(m)
		tn := t.Elem().Name()
		gen := toSet([]string{"Reset", "String", "ProtoMessage", "ProtoReflect", "Descriptor"})
		fds := m.ProtoReflect().Descriptor().Fields()
		for i := 0; i < fds.Len(); i++ {
			gen.Add("Get" + camel(string(fds.Get(i).Name())))
		}
		for i := 0; i < t.NumMethod(); i++ {
			name := t.Method(i).Name
			if gen.Has(name) || c11ReadOnly.Has(tn+"."+name) || c11Mutators.Has(tn+"."+name) {
				continue
			}
			out = append(out, tn+"."+name)
		}
	}
	return out
}

func camel(s string) string {
	parts := strings.Split(s, "_")
	for i, p := range parts {
		if p != "" {
			parts[i] = strings.ToUpper(p[:1]) + p[1:]
		}
	}
	return strings.Join(parts, "")
}

func init() {
	core.Register(&core.Prop{
		ID: "C11", Level: "exploration",
		Rule: "snapshot cases: operands are generated by the schema populator (document with 3-8 fully populated nodes, unsorted edge targets and roots, a second overlapping list, probe node, edge pair, person with nested contacts, external reference; text includes arbitrary UTF-8); " +
			"EVERY read-only or value-returning public operation (28 sbom operations, the enum helpers, WriteStream for the 7 registered formats, storage.Store) is called and an order-sensitive proto.Equal snapshot of every operand is compared before/after. " +
			"race rounds (-race build): 16 goroutines call the same operations on ONE shared document; GORACE logs are parsed, any report with a protobom frame is a violation; overlapping operation pairs are measured from call/return stamps. " +
			"A reflection pass over the exported method sets of the message types makes the run inconclusive if it meets a method that is neither in the read-only nor in the mutator list. " +
			"Half of the nodes carry realistic package URLs in several spellings (so that lookups match), half of the lists hold edge records without targets, a third of the documents have no identifier. distinct = hash of the operand set; non-trivial = document with >=1 edge having >=2 targets.",
		Assumptions: []string{"nil and empty collections are identified", "the race detector reports races on executed accesses (happens-before), so coverage is by operation pair, not by schedule"},
		NCases: func(tier string) int {
			if tier == "thorough" {
				return 60000
			}
			return 3000
		},
		Case: c11Case,
		RaceNCases: func(tier string) int {
			if tier == "thorough" {
				return 400
			}
			return 24
		},
		RaceCase:          c11Race,
		CrashInconclusive: true,
		MustCover:         []string{"race-rounds", "overlapping-op-pairs"},
		Parent: func(p *core.ParentCtx) {
			if u := c11UnclassifiedMethods(); len(u) > 0 {
				p.Inconclusive("public methods neither in the read-only nor in the mutator list: " + strings.Join(u, ","))
			}
			n := 0
			for k := range p.Merged.Cover {
				if strings.HasPrefix(k, "overlap:") {
					n++
				}
			}
			p.Info["distinct_overlapping_operation_pairs"] = n
		},
	})
}

func c11Dir() string {
	d := filepath.Join(os.Getenv("VCHECK_SCRATCH"), fmt.Sprintf("c11-store-%d", os.Getpid()))
	if os.Getenv("VCHECK_SCRATCH") == "" {
		d = filepath.Join(os.TempDir(), fmt.Sprintf("c11-store-%d", os.Getpid()))
	}
	_ = os.MkdirAll(d, 0o755)
	return d
}

func c11Case(c *core.C) {
	env := c11Build(c.R, c11Dir())
	nontrivial := false
	for _, e := range env.doc.NodeList.Edges {
		if len(e.To) >= 2 {
			nontrivial = true
		}
	}
	if nontrivial {
		c.DistinctStr(fmt.Sprint(env.doc, env.nl2))
	}
	if c.WantSample() {
		c.Sample(map[string]any{"document": gen.Canon(env.doc.NodeList), "second_list": gen.Canon(env.nl2), "ops": len(c11Ops())})
	}
	snaps := []proto.Message{}
	for _, o := range env.operands() {
		snaps = append(snaps, proto.Clone(o))
	}
	names := []string{"document", "second list", "probe node", "node n2", "edge", "edge2", "person", "external reference", "third list"}
	for _, op := range c11Ops() {
		// a panic is not C11's subject (C04/C07/C15 decide totality); the snapshot comparison still runs
		func() {
			defer func() {
				if r := recover(); r != nil {
					c.Cover("op-panicked(not judged here):" + op.name)
				}
			}()
			op.fn(env, env.r)
		}()
		c.Evals(1)
		c.Cover("op:" + op.name)
		for i, o := range env.operands() {
			if !proto.Equal(o, snaps[i]) {
				c.Violatef("operand-changed:"+op.name, map[string]any{"operand": names[i], "diff": firstDiffDeep(snaps[i], o)}, "%s changed its operand (%s): %s", op.name, names[i], firstDiffDeep(snaps[i], o))
				// resynchronise so that the remaining operations are still judged
				snaps[i] = proto.Clone(o)
			}
		}
	}
}

func firstDiffDeep(a, b proto.Message) string {
	if d, ok := a.(*sbom.Document); ok {
		bd := b.(*sbom.Document)
		if !proto.Equal(d.Metadata, bd.Metadata) {
			return "metadata: " + firstDiff(d.Metadata, bd.Metadata)
		}
		return "node_list: " + firstDiffDeep(d.NodeList, bd.NodeList)
	}
	if nl, ok := a.(*sbom.NodeList); ok {
		bn := b.(*sbom.NodeList)
		if fmt.Sprint(nl.RootElements) != fmt.Sprint(bn.RootElements) {
			return fmt.Sprintf("root_elements %v -> %v", nl.RootElements, bn.RootElements)
		}
		for i := range nl.Edges {
			if i < len(bn.Edges) && !proto.Equal(nl.Edges[i], bn.Edges[i]) {
				return fmt.Sprintf("edges[%d] %v -> %v", i, nl.Edges[i], bn.Edges[i])
			}
		}
		for i := range nl.Nodes {
			if i < len(bn.Nodes) && !proto.Equal(nl.Nodes[i], bn.Nodes[i]) {
				return fmt.Sprintf("nodes[%d]: %s", i, firstDiff(nl.Nodes[i], bn.Nodes[i]))
			}
		}
	}
	return firstDiff(a, b)
}

// c11Race: one round of concurrent read-only operations on one shared document (race build).
func c11Race(c *core.C) {
	env := c11Build(c.R, c11Dir())
	ops := c11Ops()
	const G = 16
	iters := 40
	var clock int64
	type stamp struct {
		op         int
		call, retn int64
	}
	logs := make([][]stamp, G)
	var wg sync.WaitGroup
	start := make(chan struct{})
	for g := 0; g < G; g++ {
		wg.Add(1)
		r := rand.New(rand.NewSource(c.R.Int63()))
		logs[g] = make([]stamp, 0, iters)
		go func(g int, r *rand.Rand) {
			defer wg.Done()
			defer func() { _ = recover() }() // panics are C04/C07/C15 business; here only races matter
			<-start
			for i := 0; i < iters; i++ {
				k := r.Intn(len(ops))
				if strings.HasPrefix(ops[k].name, "storage.") {
					continue // same file written by several goroutines: file-system level, not a data race on the document
				}
				t0 := atomic.AddInt64(&clock, 1)
				ops[k].fn(env, r)
				t1 := atomic.AddInt64(&clock, 1)
				logs[g] = append(logs[g], stamp{k, t0, t1})
			}
		}(g, r)
	}
	close(start)
	wg.Wait()
	c.Evals(1)
	c.Cover("race-rounds")
	// which operation pairs actually overlapped in this round
	var all []stamp
	for _, l := range logs {
		all = append(all, l...)
	}
	c.CoverN("race-calls", len(all))
	sort.Slice(all, func(i, j int) bool { return all[i].call < all[j].call })
	pairs := map[string]bool{}
	for i := range all {
		for j := i + 1; j < len(all) && all[j].call < all[i].retn; j++ {
			a, b := ops[all[i].op].name, ops[all[j].op].name
			if a > b {
				a, b = b, a
			}
			pairs[a+"|"+b] = true
		}
	}
	for p := range pairs {
		c.Cover("overlap:" + p)
	}
	c.CoverN("overlapping-op-pairs", len(pairs))
	c.DistinctStr(fmt.Sprint("race", c.K, len(pairs)))
	if c.WantSample() {
		c.Sample(map[string]any{"kind": "race round", "goroutines": G, "calls": len(all), "overlapping_pairs_this_round": len(pairs)})
	}
}
