package props

import (
	"fmt"
	"google.golang.org/protobuf/proto"
	"math/rand"

	"github.com/protobom/protobom/pkg/sbom"
	"verifharness/internal/core"
	"verifharness/internal/gen"
)

// C15 — sub-graph extraction against a bounded-reachability reference model.

type c15Model struct {
	level map[string]int // BFS level (start = 1); non-start roots are reached but not expanded
	order []string
}

func c15BFS(g *sbom.NodeList, s string) *c15Model {
	ids := gen.IDSet(g)
	m := &c15Model{level: map[string]int{}}
	if !ids.Has(s) {
		return m
	}
	roots := gen.RootSet(g)
	out := map[string][]string{}
	for _, e := range g.Edges {
		out[e.From] = append(out[e.From], e.To...)
	}
	m.level[s] = 1
	frontier := []string{s}
	for lvl := 1; len(frontier) > 0; lvl++ {
		var next []string
		for _, u := range frontier {
			if u != s && roots.Has(u) {
				continue
			}
			for _, v := range out[u] {
				if !ids.Has(v) {
					continue
				}
				if _, seen := m.level[v]; seen {
					continue
				}
				m.level[v] = lvl + 1
				next = append(next, v)
			}
		}
		frontier = next
	}
	return m
}

func (m *c15Model) upTo(d int) gen.Set {
	s := gen.Set{}
	for id, l := range m.level {
		if l <= d {
			s.Add(id)
		}
	}
	return s
}

// c15Check runs the three extraction functions on g for start s and compares with the model.
func c15Check(c *core.C, g *sbom.NodeList, s string, depths []int, r *rand.Rand, presentations int) bool {
	m := c15BFS(g, s)
	g0 := gen.Clone(g)
	defer func() {
		if !proto.Equal(g, g0) {
			c.Violatef("extraction-changed-the-list", map[string]any{"before": gen.Canon(g0), "after": gen.Canon(g), "start": s}, "after the extractions from %q the list itself is no longer what it was: %s became %s", s, gen.Canon(g0), gen.Canon(g))
		}
	}()
	ids := gen.IDSet(g)
	roots := gen.RootSet(g)
	det := map[string]any{"graph": gen.Canon(g), "start": s}
	present := ids.Has(s)
	ok := true
	judge := func(what string, res *sbom.NodeList, wantNodes gen.Set, followed gen.Set) {
		c.Evals(1)
		c.Cover("fn:" + what[:8])
		if !present {
			if res != nil && (len(res.Nodes) != 0 || len(res.Edges) != 0) {
				c.Violatef("absent-start-nonempty-"+what[:8], det, "%s on %s with absent start %q returned %s", what, gen.Canon(g), s, gen.Canon(res))
				ok = false
			}
			return
		}
		if res == nil {
			c.Violatef("nil-result-"+what[:8], det, "%s on %s returned nil although start %q exists", what, gen.Canon(g), s)
			ok = false
			return
		}
		got := gen.IDSet(res)
		if !got.Equal(wantNodes) || len(res.Nodes) != len(wantNodes) {
			c.Violatef("nodes-"+what[:8], det, "%s from %q on %s returned nodes %s (%d entries), model %s", what, s, gen.Canon(g), got, len(res.Nodes), wantNodes)
			ok = false
			return
		}
		upper := gen.TriplesAmong(g, wantNodes)
		gt := gen.TripleSet(res)
		if !gt.Subset(upper) {
			c.Violatef("edges-invented-"+what[:8], det, "%s from %q on %s returned edges %s outside %s", what, s, gen.Canon(g), gt, upper)
			ok = false
			return
		}
		if !followed.Subset(gt) {
			c.Violatef("edges-lost-"+what[:8], det, "%s from %q on %s returned edges %s, missing followed edges of %s", what, s, gen.Canon(g), gt, followed)
			ok = false
			return
		}
		if len(res.RootElements) != 1 || res.RootElements[0] != s {
			c.Violatef("roots-"+what[:8], det, "%s from %q on %s returned roots %v, want [%s]", what, s, gen.Canon(g), res.RootElements, s)
			ok = false
		}
	}
	// followed edges: u expanded (level < bound, u == s or not a root), v returned
	followedFor := func(nodes gen.Set, maxExpandLevel int) gen.Set {
		f := gen.Set{}
		for _, e := range g.Edges {
			lu, in := m.level[e.From]
			if !in || !nodes.Has(e.From) || lu > maxExpandLevel || (e.From != s && roots.Has(e.From)) {
				continue
			}
			for _, t := range e.To {
				if nodes.Has(t) {
					f.Add(gen.Triple{From: e.From, Type: e.Type, To: t}.String())
				}
			}
		}
		return f
	}
	pres := []*sbom.NodeList{g}
	for i := 1; i < presentations; i++ {
		pres = append(pres, gen.ShuffledPresentation(r, g))
	}
	for pi, p := range pres {
		if pi > 0 {
			c.Cover("shuffled-presentations")
		}
		var ng, ns *sbom.NodeList
		if guard(c, "NodeGraph", det, func() { ng = p.NodeGraph(s) }) || guard(c, "NodeSiblings", det, func() { ns = p.NodeSiblings(s) }) {
			return false
		}
		// NodeGraph: everything reachable, minus roots other than the start
		all := m.upTo(1 << 30)
		wantG := gen.Set{}
		for id := range all {
			if id == s || !roots.Has(id) {
				wantG.Add(id)
			}
		}
		judge("NodeGraph", ng, wantG, followedFor(wantG, 1<<30))
		wantS := m.upTo(2)
		judge("NodeSiblings", ns, wantS, followedFor(wantS, 1))
		var prev gen.Set
		for _, d := range depths {
			var nd *sbom.NodeList
			if guard(c, "NodeDescendants", det, func() { nd = p.NodeDescendants(s, d) }) {
				return false
			}
			want := m.upTo(d)
			judge(fmt.Sprintf("NodeDescendants(depth=%d)", d), nd, want, followedFor(want, d-1))
			if nd != nil && prev != nil && !prev.Subset(gen.IDSet(nd)) {
				c.Violatef("not-monotone", det, "NodeDescendants from %q on %s is not monotone in depth at %d", s, gen.Canon(g), d)
				ok = false
			}
			if nd != nil {
				prev = gen.IDSet(nd)
			}
		}
		if !ok {
			return false
		}
	}
	return ok
}

func c15ExhaustiveN(tier string) int {
	if tier == "thorough" {
		return 512 + 65536
	}
	return 512
}

func c15RandomN(tier string) int {
	if tier == "thorough" {
		return 1000000
	}
	return 40000
}

func init() {
	core.Register(&core.Prop{
		ID: "C15", Level: "exploration",
		Rule: "cases 0..511: edge mask k of ALL digraphs with self-loops on 3 nodes, each with every root subset x every start (a,b,c,absent,empty) x depths 1..5 (thorough adds cases for all 65536 digraphs on 4 nodes x 16 root subsets x 6 starts x depths 1..5); " +
			"further cases: random multigraphs of <=30 nodes with two edge types, parallel edges, repeated and dangling targets, dangling roots, dense cyclic ones. NodeGraph, NodeSiblings and NodeDescendants are compared with a BFS model " +
			"(non-start roots reached but not expanded; left out of NodeGraph), edges bounded between 'followed' and 'among returned nodes', root list = [start], monotone in depth, 3 shuffled presentations; " +
			"termination by the per-case CPU watchdog of the child. Every third random case extends the same list value in place and queries it again. distinct = hash of (graph, start); non-trivial = start present and >=1 edge.",
		Assumptions: []string{"node ids unique within the list", "depth >= 1"},
		NCases:      func(tier string) int { return c15ExhaustiveN(tier) + c15RandomN(tier) },
		Case:        c15Case,
		ExhaustiveSubspaces: func(tier string) []string {
			out := []string{"all 512 digraphs with self-loops on 3 nodes x 8 root subsets x 5 starts x depths 1..5"}
			if tier == "thorough" {
				out = append(out, "all 65536 digraphs on 4 nodes x 16 root subsets x 6 starts x depths 1..5")
			}
			return out
		},
		CaseCPU: 60,
	})
}

func c15Case(c *core.C) {
	ex := c15ExhaustiveN(c.Tier)
	if c.K < ex {
		ids := []string{"a", "b", "c"}
		mask := c.K
		if c.K >= 512 {
			ids = []string{"a", "b", "c", "d"}
			mask = c.K - 512
		}
		n := len(ids)
		c.Cover(fmt.Sprintf("exhaustive-digraphs-%d-nodes", n))
		for rm := 0; rm < 1<<n; rm++ {
			g := &sbom.NodeList{}
			for _, id := range ids {
				g.Nodes = append(g.Nodes, &sbom.Node{Id: id})
			}
			for i := 0; i < n; i++ {
				var tos []string
				for j := 0; j < n; j++ {
					if mask&(1<<(i*n+j)) != 0 {
						tos = append(tos, ids[j])
					}
				}
				if len(tos) > 0 {
					g.Edges = append(g.Edges, &sbom.Edge{From: ids[i], Type: sbom.Edge_contains, To: tos})
				}
			}
			for i := 0; i < n; i++ {
				if rm&(1<<i) != 0 {
					g.RootElements = append(g.RootElements, ids[i])
				}
			}
			for _, s := range append(append([]string{}, ids...), "absent", "") {
				if len(g.Edges) > 0 && s != "absent" && s != "" {
					c.DistinctStr(gen.Canon(g) + "@" + s)
				}
				pres := 1
				if n == 3 {
					pres = 2
				}
				if !c15Check(c, g, s, []int{1, 2, 3, 4, 5}, c.R, pres) {
					return
				}
			}
			if c.WantSample() && mask > 100 && rm == 3 {
				c.Sample(map[string]any{"kind": "exhaustive", "graph": gen.Canon(g), "starts": "a,b,c,absent,\"\"", "depths": "1..5"})
			}
		}
		return
	}
	// random multigraphs
	r := c.R
	n := 1 + r.Intn(30)
	ids := make([]string, n)
	for i := range ids {
		ids[i] = fmt.Sprintf("n%d", i)
	}
	pe := []float64{0.02, 0.05, 0.1, 0.3, 0.9}[r.Intn(5)]
	g := gen.RandomNodeList(r, gen.GraphOpts{Universe: ids, EdgeTypes: c09Types, PNode: 0.7 + 0.3*r.Float64(), PEdge: pe, PRoot: 0.3 * r.Float64(), IllFormed: c.K%2 == 0})
	c.Cover(fmt.Sprintf("random:density=%.2f", pe))
	s := pickID(r, ids)
	if len(g.Edges) > 0 && gen.IDSet(g).Has(s) {
		c.DistinctStr(gen.Canon(g) + "@" + s)
	}
	depths := []int{1, 2, 3, 1 + r.Intn(8), 40}
	// depths must be increasing for the monotonicity check
	if depths[3] < 3 {
		depths[3] = 3
	}
	if c15Check(c, g, s, depths, r, 3) && c.K%3 == 0 && len(g.Nodes) > 1 {
		// the same list value is extended in place and queried again: the answers must describe the list as it is now
		g.Edges = append(g.Edges, &sbom.Edge{From: gen.Pick(r, ids), Type: gen.Pick(r, c09Types), To: []string{gen.Pick(r, ids), gen.Pick(r, ids)}})
		if len(g.Edges) > 1 && r.Intn(2) == 0 {
			e := g.Edges[r.Intn(len(g.Edges)-1)]
			e.To = append(e.To, gen.Pick(r, ids))
		}
		c.Cover("extraction-again-after-in-place-change")
		c15Check(c, g, s, depths, r, 2)
	}
	if c.WantSample() && len(g.Edges) > 3 {
		c.Sample(map[string]any{"kind": "random", "graph": gen.Canon(g), "start": s, "depths": depths})
	}
}
