package props

import (
	"fmt"
	"math/rand"
	"sort"
	"strings"

	"github.com/protobom/protobom/pkg/sbom"
	"google.golang.org/protobuf/proto"
	"google.golang.org/protobuf/reflect/protoreflect"
	"google.golang.org/protobuf/types/known/timestamppb"
	"verifharness/internal/core"
	"verifharness/internal/gen"
)

// C13 — equality and checksums: equivalence laws, order-insensitivity, discrimination of every schema attribute.

var c13NodeMuts = gen.EnumerateMuts((&sbom.Node{}).ProtoReflect().Descriptor(), 3)
var c13EdgeMuts = gen.EnumerateMuts((&sbom.Edge{}).ProtoReflect().Descriptor(), 1)

// lettersOnly: separator-free text without digits (hash-map entries are concatenated without a separator).
func lettersOnly(r *rand.Rand) string {
	n := 1 + r.Intn(8)
	var b strings.Builder
	for i := 0; i < n; i++ {
		b.WriteByte("abcdefghijklmnopqrstuvwxyzABCDEFGHIJKLMNOPQRSTUVWXYZ_éßжש漢"[r.Intn(52)])
	}
	return b.String()
}

func c13Pop() gen.PopOpts {
	o := fullPop()
	o.Text = func(r *rand.Rand) string {
		if r.Intn(2) == 0 {
			return lettersOnly(r)
		}
		return strings.Map(func(c rune) rune {
			if c >= '0' && c <= '9' {
				return 'd'
			}
			return c
		}, gen.TextPlain(r, 8))
	}
	return o
}

// permuteNode shuffles every set-valued attribute of a deep copy.
func permuteNode(r *rand.Rand, n *sbom.Node) *sbom.Node {
	c := gen.Clone(n)
	r.Shuffle(len(c.Licenses), func(i, j int) { c.Licenses[i], c.Licenses[j] = c.Licenses[j], c.Licenses[i] })
	r.Shuffle(len(c.Attribution), func(i, j int) { c.Attribution[i], c.Attribution[j] = c.Attribution[j], c.Attribution[i] })
	r.Shuffle(len(c.FileTypes), func(i, j int) { c.FileTypes[i], c.FileTypes[j] = c.FileTypes[j], c.FileTypes[i] })
	r.Shuffle(len(c.PrimaryPurpose), func(i, j int) { c.PrimaryPurpose[i], c.PrimaryPurpose[j] = c.PrimaryPurpose[j], c.PrimaryPurpose[i] })
	r.Shuffle(len(c.Suppliers), func(i, j int) { c.Suppliers[i], c.Suppliers[j] = c.Suppliers[j], c.Suppliers[i] })
	r.Shuffle(len(c.Originators), func(i, j int) { c.Originators[i], c.Originators[j] = c.Originators[j], c.Originators[i] })
	r.Shuffle(len(c.ExternalReferences), func(i, j int) {
		c.ExternalReferences[i], c.ExternalReferences[j] = c.ExternalReferences[j], c.ExternalReferences[i]
	})
	// maps: rebuild in another insertion order
	for _, mp := range []*map[int32]string{&c.Hashes, &c.Identifiers} {
		if *mp == nil {
			continue
		}
		keys := []int32{}
		for k := range *mp {
			keys = append(keys, k)
		}
		r.Shuffle(len(keys), func(i, j int) { keys[i], keys[j] = keys[j], keys[i] })
		nm := map[int32]string{}
		for _, k := range keys {
			nm[k] = (*mp)[k]
		}
		*mp = nm
	}
	return c
}

func isNanosMut(mu gen.Mut) bool {
	return mu.FD.Name() == "nanos" && mu.FD.ContainingMessage().FullName() == "google.protobuf.Timestamp"
}

func init() {
	core.Register(&core.Prop{
		ID: "C13", Level: "exploration",
		Rule: "case kinds by k mod 4: (0) Node: a fully populated base node (every schema field, nested persons with contacts, external references with hashes; separator-free text), a permuted presentation of it, and for EVERY mutation site enumerated by reflection " +
			"(each field path incl. nested persons/contacts/external references/hashes/authority, dates +7 s; nanos changes must stay equal) a single-attribute mutant: reflexivity, symmetry, transitivity, Equal<=>Checksum equality, permutation invariance, mutant unequal; " +
			"(1) Edge triples the same way; (2) NodeList: permuted nodes/edges/targets/roots equal, single-attribute mutants of any node, edge, root unequal; (3) random pairs/triples with arbitrary text (TEXT_ANY) for the equivalence laws and Equal<=>Checksum, " +
			"plus the crafted separator-collision pairs of the known finding; pairs of long values (130..4100 characters) differing in one character; pairs differing only in how often one entry of a list occurs (Equal and checksum equality must agree). After the mutants, the SAME node (and list) value is compared and hashed, changed in place and asked again: the answers must equal those for a fresh copy of the changed value. distinct = hash of (kind, base value, mutation path); non-trivial = mutant at a nested path or permutation of >=2 elements.",
		Assumptions: []string{"verdict cases use separator-free text without digits in map values (known finding flatstring-separator-collision covers the rest)", "multiset changes of list attributes and the order of a person's contacts are not judged"},
		NCases: func(tier string) int {
			if tier == "thorough" {
				return 400000
			}
			return 16000
		},
		Case: c13Case,
	})
}

func c13Case(c *core.C) {
	switch c.K % 4 {
	case 0:
		c13Node(c)
	case 1:
		c13Edge(c)
	case 2:
		c13List(c)
	case 3:
		c13Random(c)
	}
}

func eqNode(c *core.C, a, b *sbom.Node, what string) (res bool, ok bool) {
	ok = !guard(c, "Node.Equal", what, func() { res = a.Equal(b) })
	c.Evals(1)
	return
}

func c13Node(c *core.C) {
	r := c.R
	o := c13Pop()
	base := gen.Node(r, "node-id", o)
	perm := permuteNode(r, base)
	c.Cover("node-bases")
	if c.WantSample() {
		s := fmt.Sprint(base)
		c.Sample(map[string]any{"kind": "node base", "value": s[:min(len(s), 500)], "mutation_sites": len(c13NodeMuts)})
	}
	if e, ok := eqNode(c, base, base, "reflexive"); ok && !e {
		c.Violatef("node-not-reflexive", fmt.Sprint(base), "Node.Equal(x,x) is false")
		return
	}
	e1, _ := eqNode(c, base, perm, "perm")
	e2, _ := eqNode(c, perm, base, "perm")
	if !e1 || !e2 {
		c.Violatef("node-order-sensitive", map[string]any{"base": fmt.Sprint(base), "perm": fmt.Sprint(perm)}, "a node and a copy with permuted set-valued attributes compare unequal (%v/%v): %s", e1, e2, firstDiff(base, perm))
		return
	}
	if base.Checksum() != perm.Checksum() {
		c.Violatef("node-checksum-order-sensitive", nil, "checksums differ under permutation of set-valued attributes")
		return
	}
	for _, mu := range c13NodeMuts {
		m := gen.Clone(base)
		if !gen.Apply(r, m.ProtoReflect(), mu, 0, o) {
			continue
		}
		if proto.Equal(m, base) {
			continue
		}
		c.Cover("node-mutated-path:" + mu.FieldPath())
		if len(mu.Path) > 0 {
			c.DistinctStr("n" + fmt.Sprint(c.K) + mu.String())
		}
		ab, ok1 := eqNode(c, base, m, mu.String())
		ba, ok2 := eqNode(c, m, base, mu.String())
		pm, ok3 := eqNode(c, perm, m, mu.String())
		if !ok1 || !ok2 || !ok3 {
			return
		}
		if ab != ba {
			c.Violatef("node-not-symmetric", mu.String(), "Equal(a,b)=%v but Equal(b,a)=%v for mutant at %s", ab, ba, mu.String())
			return
		}
		if ab != pm { // base ≡ perm, so transitivity forces Equal(perm,m) == Equal(base,m)
			c.Violatef("node-not-transitive", mu.String(), "base≡perm but Equal(base,mutant)=%v, Equal(perm,mutant)=%v at %s", ab, pm, mu.String())
			return
		}
		if (base.Checksum() == m.Checksum()) != ab {
			c.Violatef("node-equal-checksum-disagree", mu.String(), "Equal=%v but checksum equality=%v at %s", ab, base.Checksum() == m.Checksum(), mu.String())
			return
		}
		if isNanosMut(mu) {
			if !ab {
				c.Violatef("node-subsecond-unequal", mu.String(), "a sub-second change of a date (%s) makes nodes unequal", mu.String())
				return
			}
			continue
		}
		if ab {
			c.Violatef("node-mutant-equal:"+mu.FieldPath()+":"+mu.Action, map[string]any{"path": mu.String(), "base": firstDiff(base, m)}, "nodes differing only at %s compare equal (%s)", mu.String(), firstDiff(base, m))
			return
		}
	}
	c13Extra(c, base)
	c13InPlace(c, base)
}

// c13InPlace: the SAME node value is compared and hashed, changed in place, and compared and hashed again. What
// the library answers for the changed value must equal what it answers for a fresh copy of it (an answer kept
// from before the change would differ), and must tell the changed value from the original.
func c13InPlace(c *core.C, base *sbom.Node) {
	r := c.R
	o := c13Pop()
	live := gen.Clone(base)
	_ = live.Checksum()
	_ = live.Equal(base)
	_ = base.Equal(live)
	var trace []string
	for step := 0; step < 5; step++ {
		mu := c13NodeMuts[r.Intn(len(c13NodeMuts))]
		if isNanosMut(mu) || !gen.Apply(r, live.ProtoReflect(), mu, step, o) {
			continue
		}
		trace = append(trace, mu.String())
		fresh := gen.Clone(live)
		c.Evals(3)
		c.Cover("node-changed-in-place-between-comparisons")
		det := map[string]any{"changes_in_place": append([]string{}, trace...)}
		if live.Checksum() != fresh.Checksum() {
			c.Violatef("node-checksum-stale-after-change", det, "after changing a node in place (%v) its checksum differs from the checksum of a fresh copy of it", trace)
			return
		}
		if !live.Equal(fresh) || !fresh.Equal(live) {
			c.Violatef("node-equal-stale-after-change", det, "after changing a node in place (%v) it does not compare equal to a fresh copy of itself", trace)
			return
		}
		if le, bf := live.Equal(base), fresh.Equal(base); le != bf {
			c.Violatef("node-equal-stale-after-change", det, "after changing a node in place (%v) Equal(changed, original)=%v but Equal(fresh copy of changed, original)=%v", trace, le, bf)
			return
		}
	}
}

// c13Extra: mutants the generic site enumeration does not produce: enum numbers the schema does not declare,
// and dates less than a second apart that fall into different seconds.
func c13Extra(c *core.C, base *sbom.Node) bool {
	r := c.R
	unknown := []int32{-1, 1000, 1001, -2147483648, 2147483647, 29, 61, 2}
	type mut struct {
		name string
		f    func(n *sbom.Node, v int32) bool
	}
	muts := []mut{
		{"type", func(n *sbom.Node, v int32) bool { n.Type = sbom.Node_NodeType(v); return true }},
		{"primary_purpose", func(n *sbom.Node, v int32) bool {
			if len(n.PrimaryPurpose) == 0 {
				return false
			}
			n.PrimaryPurpose[0] = sbom.Purpose(v)
			return true
		}},
		{"external_references.type", func(n *sbom.Node, v int32) bool {
			if len(n.ExternalReferences) == 0 {
				return false
			}
			n.ExternalReferences[0].Type = sbom.ExternalReference_ExternalReferenceType(v)
			return true
		}},
	}
	for _, m := range muts {
		v1 := unknown[r.Intn(len(unknown))]
		v2 := unknown[r.Intn(len(unknown))]
		if v1 == v2 {
			continue
		}
		a, b := gen.Clone(base), gen.Clone(base)
		if !m.f(a, v1) || !m.f(b, v2) {
			continue
		}
		c.Evals(2)
		c.Cover("node-unknown-enum-pairs:" + m.name)
		if a.Equal(b) || b.Equal(a) {
			c.Violatef("node-mutant-equal:"+m.name+":unknown-enum-numbers", map[string]any{"v1": v1, "v2": v2}, "nodes differing only in %s (undeclared enum numbers %d vs %d) compare equal", m.name, v1, v2)
			return false
		}
	}
	// texts that a formatting routine would read as directives: the two values differ only in the flag, width or
	// precision characters after a per-cent sign (or in what follows a backslash), at a string attribute of any depth
	fmtPairs := [][2]string{{"team%20b", "team%2b"}, {"50%off", "50% off"}, {"jo%+d@x", "jo%d@x"}, {"a%.3s", "a%.5s"}, {"x%-4vy", "x%4vy"}, {"p%[1]d", "p%[2]d"}, {"q\\n", "q\\t"}, {"100%", "100%%"}}
	for tries := 0; tries < 6; tries++ {
		mu := c13NodeMuts[r.Intn(len(c13NodeMuts))]
		if mu.Action != "set" || mu.FD.Kind() != protoreflect.StringKind || mu.FD.Name() == "id" {
			continue
		}
		a, b := gen.Clone(base), gen.Clone(base)
		ma, oka := gen.Navigate(a.ProtoReflect(), mu.Path)
		mb, okb := gen.Navigate(b.ProtoReflect(), mu.Path)
		if !oka || !okb {
			continue
		}
		pr := fmtPairs[r.Intn(len(fmtPairs))]
		ma.Set(mu.FD, protoreflect.ValueOfString(pr[0]))
		mb.Set(mu.FD, protoreflect.ValueOfString(pr[1]))
		c.Evals(2)
		c.Cover("texts-that-read-as-formatting-directives")
		if a.Equal(b) || b.Equal(a) || a.Checksum() == b.Checksum() {
			c.Violatef("node-mutant-equal:"+mu.FieldPath()+":formatting-directive", map[string]any{"path": mu.String(), "values": pr}, "nodes whose %s is %q and %q compare equal (or hash alike)", mu.String(), pr[0], pr[1])
			return false
		}
	}
	// long values that agree in their length and in a long prefix: one character differs at the end, in the middle
	// or just past a power-of-two boundary
	longPair := func() (string, string) {
		n := []int{130, 200, 257, 300, 520, 1025, 4100}[r.Intn(7)]
		b := make([]byte, n)
		for i := range b {
			b[i] = byte('a' + r.Intn(26))
		}
		pos := []int{n - 1, n / 2, 128, 129, 64, n - 2}[r.Intn(6)]
		if pos >= n {
			pos = n - 1
		}
		o := append([]byte{}, b...)
		o[pos] = byte('a' + (int(b[pos]-'a')+1+r.Intn(25))%26)
		return string(b), string(o)
	}
	for tries := 0; tries < 4; tries++ {
		mu := c13NodeMuts[r.Intn(len(c13NodeMuts))]
		if mu.Action != "set" || mu.FD.Kind() != protoreflect.StringKind || mu.FD.Name() == "id" || mu.FD.IsList() || mu.FD.IsMap() {
			continue
		}
		a, b := gen.Clone(base), gen.Clone(base)
		ma, oka := gen.Navigate(a.ProtoReflect(), mu.Path)
		mb, okb := gen.Navigate(b.ProtoReflect(), mu.Path)
		if !oka || !okb {
			continue
		}
		va, vb := longPair()
		ma.Set(mu.FD, protoreflect.ValueOfString(va))
		mb.Set(mu.FD, protoreflect.ValueOfString(vb))
		c.Evals(2)
		c.Cover("long-values-differing-in-one-character")
		if a.Equal(b) || b.Equal(a) || a.Checksum() == b.Checksum() {
			c.Violatef("node-mutant-equal:"+mu.FieldPath()+":long-value", map[string]any{"path": mu.String(), "length": len(va)}, "nodes whose %s are two %d-character values differing in one character compare equal (or hash alike)", mu.String(), len(va))
			return false
		}
	}
	for _, name := range []string{"licenses", "attribution", "file_types"} {
		fd := base.ProtoReflect().Descriptor().Fields().ByName(protoreflect.Name(name))
		if fd == nil || !fd.IsList() || fd.Kind() != protoreflect.StringKind {
			continue
		}
		a, b := gen.Clone(base), gen.Clone(base)
		va, vb := longPair()
		a.ProtoReflect().Mutable(fd).List().Append(protoreflect.ValueOfString(va))
		b.ProtoReflect().Mutable(fd).List().Append(protoreflect.ValueOfString(vb))
		c.Evals(2)
		c.Cover("long-values-differing-in-one-character:" + name)
		if a.Equal(b) || b.Equal(a) || a.Checksum() == b.Checksum() {
			c.Violatef("node-mutant-equal:"+name+":long-value", map[string]any{"field": name, "length": len(va)}, "nodes whose %s hold two %d-character entries differing in one character compare equal (or hash alike)", name, len(va))
			return false
		}
		la, lb := &sbom.NodeList{Nodes: []*sbom.Node{a}}, &sbom.NodeList{Nodes: []*sbom.Node{b}}
		if la.Equal(lb) {
			c.Violatef("list-mutant-equal:"+name+":long-value", map[string]any{"field": name, "length": len(va)}, "node lists whose only node differs in one character of a %d-character %s entry compare equal", len(va), name)
			return false
		}
	}
	// multiplicities: the same list with two (or three) further copies of one of its entries. Which verdict is right
	// for a changed multiplicity is not judged (see assumptions), but Equal and the checksums must give the same one.
	for _, name := range []string{"suppliers", "originators", "external_references", "licenses", "attribution", "file_types"} {
		fd := base.ProtoReflect().Descriptor().Fields().ByName(protoreflect.Name(name))
		if fd == nil || !fd.IsList() || base.ProtoReflect().Get(fd).List().Len() == 0 {
			continue
		}
		a, b := gen.Clone(base), gen.Clone(base)
		l := b.ProtoReflect().Mutable(fd).List()
		pick := r.Intn(l.Len())
		extra := 2 + r.Intn(2)
		for j := 0; j < extra; j++ {
			if fd.Kind() == protoreflect.MessageKind {
				l.Append(protoreflect.ValueOfMessage(proto.Clone(l.Get(pick).Message().Interface()).ProtoReflect()))
			} else {
				l.Append(l.Get(pick))
			}
		}
		if extra == 2 && r.Intn(2) == 0 {
			// or: the list without the entry against the list holding it twice
			la := a.ProtoReflect().Mutable(fd).List()
			keep := []protoreflect.Value{}
			for j := 0; j < la.Len(); j++ {
				if j != pick {
					keep = append(keep, la.Get(j))
				}
			}
			la.Truncate(0)
			for _, v := range keep {
				la.Append(v)
			}
			lb := b.ProtoReflect().Mutable(fd).List()
			lb.Truncate(lb.Len() - 1)
		}
		c.Evals(2)
		c.Cover("entry-multiplicity-pairs:" + name)
		e1, e2 := a.Equal(b), b.Equal(a)
		cs := a.Checksum() == b.Checksum()
		if e1 != e2 || e1 != cs {
			c.Violatef("node-equal-checksum-disagree:multiplicity:"+name, map[string]any{"field": name, "extra": extra}, "nodes whose %s differ only in how often one entry occurs: Equal=%v/%v but checksum equality=%v", name, e1, e2, cs)
			return false
		}
	}
	for i, get := range []func(n *sbom.Node) **timestampT{
		func(n *sbom.Node) **timestampT { return &n.ReleaseDate }, func(n *sbom.Node) **timestampT { return &n.BuildDate }, func(n *sbom.Node) **timestampT { return &n.ValidUntilDate },
	} {
		a, b := gen.Clone(base), gen.Clone(base)
		if *get(a) == nil {
			continue
		}
		(*get(a)).Nanos = int32(900000000 + r.Intn(99999999))
		(*get(b)).Seconds = (*get(a)).Seconds + 1
		(*get(b)).Nanos = int32(r.Intn(100000000))
		c.Evals(2)
		c.Cover("dates-straddling-a-second-boundary")
		if a.Equal(b) || b.Equal(a) {
			c.Violatef("node-mutant-equal:date-across-second-boundary", i, "nodes whose date %d differs by less than a second but falls into different seconds compare equal", i)
			return false
		}
	}
	return true
}

func c13Edge(c *core.C) {
	r := c.R
	mkID := func() string { return lettersOnly(r) }
	base := &sbom.Edge{From: mkID(), Type: sbom.Edge_Type(1 + r.Intn(44))}
	seen := gen.Set{}
	for i := 0; i < 1+r.Intn(5); i++ {
		t := mkID()
		if !seen.Has(t) {
			seen.Add(t)
			base.To = append(base.To, t)
		}
	}
	if r.Intn(3) == 0 && len(base.To) > 0 {
		// a target list that names a target more than once (a legal value): every arrangement of the same targets -
		// repeats adjacent or apart - is the same edge
		base.To = append(base.To, base.To[r.Intn(len(base.To))])
		if r.Intn(2) == 0 {
			base.To = append(base.To, base.To[r.Intn(len(base.To))])
		}
		c.Cover("edge-with-repeated-targets")
	}
	perm := gen.Clone(base)
	for try := 0; try < 4; try++ {
		r.Shuffle(len(perm.To), func(i, j int) { perm.To[i], perm.To[j] = perm.To[j], perm.To[i] })
		sorted := gen.Clone(base)
		sort.Strings(sorted.To)
		c.Evals(3)
		if !base.Equal(base) || !base.Equal(perm) || !perm.Equal(base) || !sorted.Equal(perm) || !perm.Equal(sorted) {
			c.Violatef("edge-order-sensitive", map[string]any{"edge": fmt.Sprint(base), "permuted": fmt.Sprint(perm)}, "an edge and a copy with its targets in another order compare unequal: %v vs %v", base.To, perm.To)
			return
		}
		la := &sbom.NodeList{Nodes: []*sbom.Node{{Id: base.From}}, Edges: []*sbom.Edge{gen.Clone(base)}}
		lb := &sbom.NodeList{Nodes: []*sbom.Node{{Id: base.From}}, Edges: []*sbom.Edge{gen.Clone(perm)}}
		if !la.Equal(lb) || !lb.Equal(la) {
			c.Violatef("list-order-sensitive:edge-targets", map[string]any{"edge": fmt.Sprint(base), "permuted": fmt.Sprint(perm)}, "node lists whose only edge lists the same targets in another order compare unequal: %v vs %v", base.To, perm.To)
			return
		}
	}
	if len(base.To) >= 2 {
		c.DistinctStr("edge" + fmt.Sprint(base))
	}
	for _, pr := range [][2]int32{{1000, 1001}, {-1, 45}, {-2147483648, 2147483647}, {0, 46}, {45, 46}} {
		a, b := gen.Clone(base), gen.Clone(base)
		a.Type, b.Type = sbom.Edge_Type(pr[0]), sbom.Edge_Type(pr[1])
		c.Evals(2)
		c.Cover("edge-unknown-enum-pairs")
		if a.Equal(b) || b.Equal(a) {
			c.Violatef("edge-mutant-equal:type:unknown-enum-numbers", pr, "edges differing only in their type (undeclared enum numbers %d vs %d) compare equal", pr[0], pr[1])
			return
		}
		la := &sbom.NodeList{Nodes: []*sbom.Node{{Id: base.From}}, Edges: []*sbom.Edge{a}}
		lb := &sbom.NodeList{Nodes: []*sbom.Node{{Id: base.From}}, Edges: []*sbom.Edge{b}}
		if la.Equal(lb) {
			c.Violatef("list-mutant-equal:edge-type:unknown-enum-numbers", pr, "node lists whose only edge differs in its type (%d vs %d) compare equal", pr[0], pr[1])
			return
		}
	}
	for _, mu := range c13EdgeMuts {
		m := gen.Clone(base)
		if !gen.Apply(r, m.ProtoReflect(), mu, 0, gen.DefaultPop()) || proto.Equal(m, base) {
			continue
		}
		c.Cover("edge-mutated-path:" + mu.FieldPath())
		c.Evals(3)
		ab, ba, pm := base.Equal(m), m.Equal(base), perm.Equal(m)
		if ab != ba || ab != pm {
			c.Violatef("edge-laws", mu.String(), "edge equality not symmetric/transitive at %s", mu.String())
			return
		}
		if ab {
			c.Violatef("edge-mutant-equal:"+mu.FieldPath()+":"+mu.Action, map[string]any{"base": fmt.Sprint(base), "mutant": fmt.Sprint(m)}, "edges %v and %v compare equal", base, m)
			return
		}
	}
}

// c13LargeList: lists long enough to cross the batch sizes and thresholds of bulk shortcuts (64, 100, 128, ...):
// a reordered copy is equal, a copy differing in ONE node - first, middle, last - is not.
func c13LargeList(c *core.C) {
	r := c.R
	o := c13Pop()
	o.PFill = 0.15
	o.Depth = 1
	n := gen.Pick(r, []int{63, 64, 65, 66, 100, 127, 128, 129, 130, 200, 257})
	base := &sbom.NodeList{}
	for i := 0; i < n; i++ {
		base.Nodes = append(base.Nodes, gen.Node(r, fmt.Sprintf("n%03d", i), o))
	}
	for i := 1; i < n; i += 1 + r.Intn(3) {
		base.Edges = append(base.Edges, &sbom.Edge{From: base.Nodes[r.Intn(i)].Id, Type: sbom.Edge_contains, To: []string{base.Nodes[i].Id}})
	}
	base.RootElements = []string{"n000"}
	c.Cover(fmt.Sprintf("large-list:%d-nodes", n))
	perm := gen.ShuffledPresentation(r, base)
	c.Evals(2)
	if !base.Equal(perm) || !perm.Equal(base) {
		c.Violatef("list-order-sensitive:large", map[string]any{"nodes": n}, "a list of %d nodes and a reordered copy of it compare unequal", n)
		return
	}
	for _, at := range []int{0, n / 2, n - 1, n - 2, 63 % n, 64 % n} {
		m := gen.Clone(perm)
		var victim *sbom.Node
		for _, nd := range m.Nodes {
			if nd.Id == fmt.Sprintf("n%03d", at) {
				victim = nd
			}
		}
		victim.Name += "-changed"
		c.Evals(2)
		if base.Equal(m) || m.Equal(base) {
			c.Violatef("list-mutant-equal:large:node-name", map[string]any{"nodes": n, "changed_node_index": at}, "two lists of %d nodes that differ in the name of node %d compare equal", n, at)
			return
		}
		m2 := gen.Clone(base)
		m2.Nodes[at].Name += "-changed"
		if base.Equal(m2) || m2.Equal(base) {
			c.Violatef("list-mutant-equal:large:node-name", map[string]any{"nodes": n, "changed_node_index": at, "same_order": true}, "two same-ordered lists of %d nodes that differ in the name of node %d compare equal", n, at)
			return
		}
	}
}

func c13List(c *core.C) {
	r := c.R
	if c.K%16 == 2 {
		c13LargeList(c)
		return
	}
	o := c13Pop()
	o.PFill = 0.6
	ids := []string{"na", "nb", "nc", "nd"}
	mk := func(r *rand.Rand, id string) *sbom.Node { return gen.Node(r, id, o) }
	base := gen.RandomNodeList(r, gen.GraphOpts{Universe: ids, EdgeTypes: c09Types, PNode: 1, PEdge: 0.4, PRoot: 0.6, NodeMaker: mk})
	if r.Intn(2) == 0 {
		// several edge records per source and type: their relative order is part of "the order of edges"
		base = gen.SplitPresentation(r, base)
		c.Cover("list-with-several-edge-records-per-source-and-type")
	}
	perm := gen.ShuffledPresentation(r, base)
	for i, n := range perm.Nodes {
		perm.Nodes[i] = permuteNode(r, n)
	}
	c.Evals(3)
	var e0, e1, e2 bool
	if guard(c, "NodeList.Equal", gen.Canon(base), func() { e0, e1, e2 = base.Equal(base), base.Equal(perm), perm.Equal(base) }) {
		return
	}
	if !e0 || !e1 || !e2 {
		c.Violatef("list-order-sensitive", map[string]any{"base": gen.Canon(base)}, "node list and a permuted presentation compare unequal (%v %v %v); %s", e0, e1, e2, gen.Canon(base))
		return
	}
	if len(base.Edges) >= 2 {
		c.DistinctStr("list" + fmt.Sprint(base))
		if c.WantSample() {
			c.Sample(map[string]any{"kind": "node list base", "value": gen.Canon(base)})
		}
	}
	check := func(what string, m *sbom.NodeList) bool {
		c.Evals(3)
		c.Cover("list-mutant:" + what)
		ab, ba, pm := base.Equal(m), m.Equal(base), perm.Equal(m)
		if ab != ba || ab != pm {
			c.Violatef("list-laws", what, "list equality not symmetric/transitive for mutant %s", what)
			return false
		}
		if ab {
			c.Violatef("list-mutant-equal:"+what, map[string]any{"base": gen.Canon(base), "mutant": gen.Canon(m)}, "lists differing in %s compare equal: %s vs %s", what, gen.Canon(base), gen.Canon(m))
			return false
		}
		return true
	}
	// node attribute mutants (a sample of sites per case; every site is covered across cases)
	for i := 0; i < 12; i++ {
		mu := c13NodeMuts[r.Intn(len(c13NodeMuts))]
		if isNanosMut(mu) || (len(mu.Path) == 0 && mu.FD.Name() == "id") {
			continue
		}
		m := gen.Clone(base)
		ni := r.Intn(len(m.Nodes))
		if !gen.Apply(r, m.Nodes[ni].ProtoReflect(), mu, 0, o) || proto.Equal(m, base) {
			continue
		}
		if !check("node-attr:"+mu.FieldPath(), m) {
			return
		}
	}
	if len(base.Edges) > 0 {
		m := gen.Clone(base)
		m.Edges[0].To = append(m.Edges[0].To, "nx")
		if !check("edge-target-added", m) {
			return
		}
		m = gen.Clone(base)
		m.Edges[0].Type = sbom.Edge_variant
		if !check("edge-type", m) {
			return
		}
		m = gen.Clone(base)
		m.Edges[0].From = "nx"
		if !check("edge-from", m) {
			return
		}
		m = gen.Clone(base)
		m.Edges = m.Edges[1:]
		if !check("edge-removed", m) {
			return
		}
	}
	// same sizes, different multisets: an edge (or root) replaced by a duplicate of a sibling
	if len(base.Edges) >= 2 {
		m := gen.Clone(base)
		m.Edges[0] = gen.Clone(m.Edges[1])
		if !check("edge-replaced-by-duplicate-of-sibling", m) {
			return
		}
		m3 := gen.Clone(base)
		m3.Edges = append(m3.Edges, gen.Clone(m3.Edges[0]))
		m4 := gen.Clone(base)
		m4.Edges = append(m4.Edges, gen.Clone(m4.Edges[1]))
		c.Evals(2)
		if a, b := m3.Equal(m4), m4.Equal(m3); a != b || a {
			c.Violatef("list-mutant-equal:different-duplicated-edge", map[string]any{"base": gen.Canon(base)}, "lists that repeat different edges ([e0,e1,..,e0] vs [e0,e1,..,e1]) compare %v / %v", a, b)
			return
		}
	}
	if len(base.RootElements) >= 2 {
		m := gen.Clone(base)
		m.RootElements[0] = m.RootElements[1]
		if !check("root-replaced-by-duplicate-of-sibling", m) {
			return
		}
	}
	m := gen.Clone(base)
	m.RootElements = append(m.RootElements, "nx")
	if !check("root-added", m) {
		return
	}
	if len(base.RootElements) > 0 {
		m = gen.Clone(base)
		m.RootElements[0] = "nx"
		if !check("root-changed", m) {
			return
		}
	}
	m = gen.Clone(base)
	m.Nodes = m.Nodes[1:]
	if !check("node-removed", m) {
		return
	}
	m = gen.Clone(base)
	m.Nodes[0].Id = "nx"
	if !check("node-id", m) {
		return
	}
	// the same list value compared, changed in place (same number of nodes and edges), compared again
	live := gen.Clone(base)
	_, _ = live.Equal(base), base.Equal(live)
	var trace []string
	for step := 0; step < 4; step++ {
		switch r.Intn(4) {
		case 0:
			ni := r.Intn(len(live.Nodes))
			mu := c13NodeMuts[r.Intn(len(c13NodeMuts))]
			if isNanosMut(mu) || !gen.Apply(r, live.Nodes[ni].ProtoReflect(), mu, step, o) {
				continue
			}
			trace = append(trace, fmt.Sprintf("node %d: %s", ni, mu.String()))
		case 1:
			if len(live.Edges) == 0 {
				continue
			}
			e := live.Edges[r.Intn(len(live.Edges))]
			e.To = append(e.To, "nx")
			trace = append(trace, "edge target added")
		case 2:
			if len(live.Edges) == 0 {
				continue
			}
			live.Edges[r.Intn(len(live.Edges))].Type = sbom.Edge_Type(1 + r.Intn(44))
			trace = append(trace, "edge type changed")
		default:
			if len(live.RootElements) == 0 {
				continue
			}
			live.RootElements[r.Intn(len(live.RootElements))] = gen.Pick(r, ids)
			trace = append(trace, "root changed")
		}
		fresh := gen.Clone(live)
		c.Evals(2)
		c.Cover("list-changed-in-place-between-comparisons")
		det := map[string]any{"base": gen.Canon(base), "changes_in_place": append([]string{}, trace...)}
		if !live.Equal(fresh) || !fresh.Equal(live) {
			c.Violatef("list-equal-stale-after-change", det, "after changing a list in place (%v) it does not compare equal to a fresh copy of itself", trace)
			return
		}
		if le, bf := live.Equal(base), fresh.Equal(base); le != bf {
			c.Violatef("list-equal-stale-after-change", det, "after changing a list in place (%v) Equal(changed, original)=%v but Equal(fresh copy of changed, original)=%v", trace, le, bf)
			return
		}
	}
}

// c13Random: equivalence laws on arbitrary text; confirmation of the separator-collision known finding.
func c13Random(c *core.C) {
	r := c.R
	o := gen.DefaultPop()
	o.Text = func(r *rand.Rand) string { return gen.ValidUTF8Any(r, 6) }
	o.PFill = 0.3
	o.Depth = 2
	// few distinct values so that equal pairs actually occur
	small := gen.DefaultPop()
	small.PFill = 0.15
	small.Text = func(r *rand.Rand) string { return gen.Pick(r, []string{"a", "b"}) }
	var ns []*sbom.Node
	for i := 0; i < 3; i++ {
		if r.Intn(2) == 0 {
			ns = append(ns, gen.Node(r, "x", small))
		} else {
			ns = append(ns, gen.Node(r, gen.ValidUTF8Any(r, 4), o))
		}
	}
	eq := map[[2]int]bool{}
	for i := range ns {
		for j := range ns {
			var e bool
			if guard(c, "Node.Equal", fmt.Sprint(ns[i], ns[j]), func() { e = ns[i].Equal(ns[j]) }) {
				return
			}
			c.Evals(1)
			eq[[2]int{i, j}] = e
			if (ns[i].Checksum() == ns[j].Checksum()) != e {
				c.Violatef("node-equal-checksum-disagree", nil, "Equal=%v but checksums equal=%v", e, !e)
				return
			}
		}
	}
	for i := range ns {
		if !eq[[2]int{i, i}] {
			c.Violatef("node-not-reflexive", fmt.Sprint(ns[i]), "Equal(x,x) false")
			return
		}
		for j := range ns {
			if eq[[2]int{i, j}] != eq[[2]int{j, i}] {
				c.Violatef("node-not-symmetric", nil, "Equal not symmetric on random pair")
				return
			}
			for k := range ns {
				if eq[[2]int{i, j}] && eq[[2]int{j, k}] && !eq[[2]int{i, k}] {
					c.Violatef("node-not-transitive", nil, "Equal not transitive on random triple")
					return
				}
			}
			if i < j && eq[[2]int{i, j}] {
				c.Cover("random-equal-pairs")
				if !proto.Equal(ns[i], ns[j]) && !sameUpToSetsAndSeconds(ns[i], ns[j]) {
					sig := "equal-but-differs"
					if separatorInvolved(ns[i], ns[j]) {
						sig = "flatstring-separator-collision"
					}
					c.Violatef(sig, map[string]any{"a": fmt.Sprint(ns[i]), "b": fmt.Sprint(ns[j])}, "nodes with different content compare equal: %s", firstDiff(ns[i], ns[j]))
					return
				}
			}
		}
	}
	// crafted collisions of the known finding (confirmation sub-run; exactly the listed signature)
	a := &sbom.Node{Id: "n", Name: "x:protobom.protobom.Node.version:1"}
	b := &sbom.Node{Id: "n", Name: "x", Version: "1"}
	h1 := &sbom.Node{Id: "n", Hashes: map[int32]string{1: "ab1", 7: "cd"}}
	h2 := &sbom.Node{Id: "n", Hashes: map[int32]string{1: "ab", 17: "cd"}}
	for _, p := range [][2]*sbom.Node{{a, b}, {h1, h2}} {
		c.Evals(1)
		c.Cover("crafted-collision-pairs")
		if p[0].Equal(p[1]) {
			c.Violatef("flatstring-separator-collision", map[string]any{"a": fmt.Sprint(p[0]), "b": fmt.Sprint(p[1])}, "nodes %v and %v compare equal although their attributes differ (flattened strings collide)", p[0], p[1])
		}
	}
	ea := &sbom.Edge{From: "a:contains:b+c", Type: sbom.Edge_contains, To: []string{"d"}}
	_ = ea
}

// sameUpToSetsAndSeconds: content equality modulo list order and sub-second date parts.
func sameUpToSetsAndSeconds(a, b *sbom.Node) bool {
	na, nb := gen.Clone(a), gen.Clone(b)
	for _, n := range []*sbom.Node{na, nb} {
		for _, t := range []**timestampT{&n.ReleaseDate, &n.BuildDate, &n.ValidUntilDate} {
			if *t != nil {
				(*t).Nanos = 0
			}
		}
	}
	ar, br := na.ProtoReflect(), nb.ProtoReflect()
	for _, fd := range nodeFields {
		if fieldCanon(ar, fd, false) != fieldCanon(br, fd, false) {
			return false
		}
	}
	return true
}

// separatorInvolved: some differing attribute holds one of the flattened format's separators,
// or the difference is in a map (entries are concatenated without a separator).
func separatorInvolved(a, b *sbom.Node) bool {
	ar, br := a.ProtoReflect(), b.ProtoReflect()
	for _, fd := range nodeFields {
		ca, cb := fieldCanon(ar, fd, false), fieldCanon(br, fd, false)
		if ca == cb {
			continue
		}
		if fd.IsMap() || strings.ContainsAny(strings.Join(leafStrings(ar, fd), "")+strings.Join(leafStrings(br, fd), ""), ":[]()+") {
			return true
		}
	}
	return false
}

type timestampT = timestamppb.Timestamp

// leafStrings collects every string value below a field (nested messages included).
func leafStrings(m protoreflect.Message, fd protoreflect.FieldDescriptor) []string {
	var out []string
	var val func(fd protoreflect.FieldDescriptor, v protoreflect.Value)
	var msg func(m protoreflect.Message)
	val = func(fd protoreflect.FieldDescriptor, v protoreflect.Value) {
		switch fd.Kind() {
		case protoreflect.StringKind:
			out = append(out, v.String())
		case protoreflect.MessageKind:
			msg(v.Message())
		}
	}
	msg = func(m protoreflect.Message) {
		m.Range(func(fd protoreflect.FieldDescriptor, v protoreflect.Value) bool {
			switch {
			case fd.IsList():
				for i := 0; i < v.List().Len(); i++ {
					val(fd, v.List().Get(i))
				}
			case fd.IsMap():
				v.Map().Range(func(_ protoreflect.MapKey, mv protoreflect.Value) bool { val(fd.MapValue(), mv); return true })
			default:
				val(fd, v)
			}
			return true
		})
	}
	switch {
	case fd.IsList():
		l := m.Get(fd).List()
		for i := 0; i < l.Len(); i++ {
			val(fd, l.Get(i))
		}
	case fd.IsMap():
		m.Get(fd).Map().Range(func(_ protoreflect.MapKey, mv protoreflect.Value) bool { val(fd.MapValue(), mv); return true })
	default:
		if m.Has(fd) {
			val(fd, m.Get(fd))
		}
	}
	return out
}
