package props

import (
	"bytes"
	"encoding/json"
	"fmt"
	"io"
	"math/rand"
	"os"
	"path/filepath"
	"regexp"
	"strings"
	"sync/atomic"

	"github.com/protobom/protobom/pkg/formats"
	"github.com/protobom/protobom/pkg/native"
	"github.com/protobom/protobom/pkg/sbom"
	"github.com/protobom/protobom/pkg/writer"
	"verifharness/internal/core"
	"verifharness/internal/gen"
	"verifharness/internal/jsonx"
)

// C06 — format detection: correct, layout-independent, non-consuming.

// trackedRS records every Read/Seek and the resulting offset.
type trackedRS struct {
	r      *bytes.Reader
	off    int64
	reads  int
	seeks  int
	failAt int // fail the n-th Seek (0 = never)
}

func (t *trackedRS) Read(p []byte) (int, error) {
	n, err := t.r.Read(p)
	t.off += int64(n)
	t.reads++
	return n, err
}

func (t *trackedRS) Seek(off int64, whence int) (int64, error) {
	t.seeks++
	n, err := t.r.Seek(off, whence)
	if err == nil {
		t.off = n
	}
	return n, err
}

// one Sniffer value is reused for every second call of the process (a detector that remembers anything from an
// earlier input would answer for the wrong one); the other calls get a fresh value
var sharedSniffer = &formats.Sniffer{}
var sniffCalls atomic.Int64

func sniffTracked(b []byte) (formats.Format, error, int64) {
	t := &trackedRS{r: bytes.NewReader(b)}
	sn := &formats.Sniffer{}
	if sniffCalls.Add(1)%2 == 0 {
		sn = sharedSniffer
	}
	f, err := sn.SniffReader(t)
	return f, err, t.off
}

// c06Expect is the partial reference detector: (format, "ok") for the clear positive cases, ("", "error") for the must-error set, ("", "") undecided.
func c06Expect(b []byte) (formats.Format, string) {
	v, err := jsonx.Parse(b)
	if err == nil && !json.Valid(b) {
		return "", "" // the lenient tree parser accepts it but it is not valid JSON (raw control characters): undecided
	}
	if err == nil {
		if v.Kind != jsonx.Object {
			if strings.Contains(string(b), "SPDXVersion:") {
				return "", "" // a JSON string/array that also reads as a tag-value declaration line: undecided
			}
			return "", "error" // no top-level declaration possible
		}
		count := func(k string) int {
			n := 0
			for _, m := range v.Members {
				if m.Key == k {
					n++
				}
			}
			return n
		}
		if count("bomFormat") > 1 || count("specVersion") > 1 || count("spdxVersion") > 1 {
			return "", ""
		}
		bf, sv, sp := v.Get("bomFormat"), v.Get("specVersion"), v.Get("spdxVersion")
		// member names that differ only in case are matched by encoding/json too: undecided
		for _, m := range v.Members {
			lk := strings.ToLower(m.Key)
			if (lk == "bomformat" && m.Key != "bomFormat") || (lk == "specversion" && m.Key != "specVersion") || (lk == "spdxversion" && m.Key != "spdxVersion") {
				return "", ""
			}
		}
		if bf != nil && bf.Kind == jsonx.String && strings.EqualFold(bf.Str, "CycloneDX") {
			if sp != nil {
				return "", ""
			}
			if sv != nil && sv.Kind == jsonx.String {
				switch sv.Str {
				case "1.3":
					return formats.CDX13JSON, "ok"
				case "1.4":
					return formats.CDX14JSON, "ok"
				case "1.5":
					return formats.CDX15JSON, "ok"
				case "1.6", "1.30", "1.40", "1.50", "2.0", "1", "1.4.0", " 1.4", "":
					return "", "error"
				}
			}
			if sv == nil {
				return "", "error"
			}
			return "", ""
		}
		if bf != nil {
			return "", "" // some other bomFormat value: undecided
		}
		if sp != nil && sp.Kind == jsonx.String {
			switch sp.Str {
			case "SPDX-2.2":
				return formats.SPDX22JSON, "ok"
			case "SPDX-2.3":
				return formats.SPDX23JSON, "ok"
			case "SPDX-2.1", "SPDX-3.0", "spdx-2.3", "SPDX-2.30", "2.3", "SPDX-2", "":
				return "", "error"
			}
			return "", ""
		}
		if sp == nil && sv == nil {
			return "", "error" // no declaration at the top level (nested / in an array / in a string do not count)
		}
		return "", ""
	}
	// not JSON: tag-value declaration line
	s := string(b)
	if !strings.Contains(s, "SPDXVersion:") {
		if strings.HasPrefix(strings.TrimSpace(s), "{") || strings.HasPrefix(strings.TrimSpace(s), "[") {
			// malformed JSON: encoding/json may already have decoded a declaration before the error; undecided unless no marker at all
			if !strings.Contains(s, "bomFormat") && !strings.Contains(s, "spdxVersion") {
				return "", "error"
			}
			return "", ""
		}
		return "", "error"
	}
	var decl []string
	for _, ln := range strings.Split(s, "\n") {
		if strings.Contains(ln, "SPDXVersion:") {
			decl = append(decl, ln)
		}
	}
	if len(decl) != 1 || !strings.HasPrefix(decl[0], "SPDXVersion:") {
		return "", ""
	}
	// a tag-value document starts with a "Tag: value" line; text that begins with a JSON value (null, a number, a string)
	// is consumed by the JSON decoder first: undecided
	if !tagLineRe.MatchString(strings.SplitN(strings.TrimLeft(s, " \t\r\n"), "\n", 2)[0]) {
		return "", ""
	}
	switch strings.TrimSpace(strings.TrimPrefix(decl[0], "SPDXVersion:")) {
	case "SPDX-2.2":
		return formats.SPDX22TV, "ok"
	case "SPDX-2.3":
		return formats.SPDX23TV, "ok"
	case "SPDX-2.1", "SPDX-3.0", "spdx-2.3", "SPDX-1.2", "":
		return "", "error"
	}
	return "", ""
}

var tagLineRe = regexp.MustCompile(`^[A-Z][A-Za-z]*: `)

func declOf(f formats.Format) (typ, ver, enc string) {
	switch f {
	case formats.CDX13JSON:
		return "cyclonedx", "1.3", "json"
	case formats.CDX14JSON:
		return "cyclonedx", "1.4", "json"
	case formats.CDX15JSON:
		return "cyclonedx", "1.5", "json"
	case formats.SPDX22JSON:
		return "spdx", "2.2", "json"
	case formats.SPDX23JSON:
		return "spdx", "2.3", "json"
	case formats.SPDX22TV:
		return "spdx", "2.2", "text"
	case formats.SPDX23TV:
		return "spdx", "2.3", "text"
	}
	return "", "", ""
}

func init() {
	core.Register(&core.Prop{
		ID: "C06", Level: "exploration",
		Rule: "writer outputs also come from ONE writer instance asked for SPDX 2.3 and CycloneDX 1.3/1.4/1.5 in a shuffled order (each output must be detected as what that call asked for); k mod 3 == 0: a generated document (SPDX class -> SPDX 2.3; CycloneDX trees -> 1.3, 1.4, 1.5 in turn) is written at indentation {0,1,2,4,8,17}[k] and detection is run on the output and on 8 re-encodings (white space, member shuffles, escape modes, compact): it must return exactly that format, " +
			"the format's Type/Version/Encoding accessors must agree with the declaration, the stream offset must be 0 afterwards (instrumented ReadSeeker) and ParseStream must equal ParseStreamWithOptions(F); " +
			"k mod 3 == 1: negative and near-miss inputs (declaration only nested / in an array / in a string, versions 1.6, 1.30, SPDX-2.1, SPDX-3.0, spdx-2.3, tag-value files whose SPDXVersion line carries an unsupported version while another line quotes a supported one, inputs without any marker) must return an error; " +
			"k mod 3 == 2: random bytes, token soups and mutated declarations for totality and rewind only. A deliberately partial reference detector decides only the clear cases. Re-encodings put random white space before and after the top-level value as well as between tokens; every second call of a process uses one shared Sniffer value. distinct = hash of the sniffed bytes; non-trivial = decided case.",
		Assumptions: []string{"inputs outside both decided sets are executed for totality and rewind only", "member names differing from the declaration keys only in letter case are undecided (encoding/json matches them case-insensitively)"},
		NCases: func(tier string) int {
			if tier == "thorough" {
				return 900000
			}
			return 60000
		},
		Case: c06Case,
	})
}

func c06Judge(c *core.C, in []byte, label string, forceExpect formats.Format) bool {
	det := map[string]any{"label": label}
	if len(in) < 3000 {
		det["input"] = string(in)
	} else {
		det["input_head"] = string(in[:1500])
	}
	var f formats.Format
	var err error
	var off int64
	if guard(c, "SniffReader", det, func() { f, err, off = sniffTracked(in) }) {
		return false
	}
	c.Evals(1)
	if off != 0 {
		c.Violatef("stream-not-rewound", det, "after SniffReader (format %q, err %v) the stream is at offset %d, not 0 (%s)", f, err, off, label)
		return false
	}
	if (f == "") == (err == nil) {
		c.Violatef("sniff-shape", det, "SniffReader returned format %q with error %v", f, err)
		return false
	}
	want, verdict := c06Expect(in)
	if forceExpect != "" {
		want, verdict = forceExpect, "ok"
	}
	switch verdict {
	case "ok":
		c.Cover("decided:positive")
		c.DistinctBytes(in)
		if f != want {
			c.Violatef("wrong-format:"+string(want), det, "SniffReader returned %q (err %v), the declaration says %q (%s)", f, err, want, label)
			return false
		}
		typ, ver, enc := declOf(f)
		ff := f
		if ff.Type() != typ || ff.Version() != ver || ff.Encoding() != enc {
			c.Violatef("format-accessors", det, "format %q: Type/Version/Encoding = %q/%q/%q, declaration %q/%q/%q", f, ff.Type(), ff.Version(), ff.Encoding(), typ, ver, enc)
			return false
		}
		if mm := ff.Major() + "." + ff.Minor(); mm != ver {
			c.Violatef("format-accessors:major-minor", det, "format %q: Major.Minor = %q, the declaration says version %q", f, mm, ver)
			return false
		}
	case "error":
		c.Cover("decided:must-error")
		c.DistinctBytes(in)
		if err == nil {
			c.Violatef("format-without-declaration", det, "SniffReader reported %q although the input's top-level declaration does not say so (%s)", f, label)
			return false
		}
	default:
		c.Cover("undecided(totality+rewind only)")
	}
	return true
}

var c06RealFiles = append(append([]string{}, c03RealFiles...), "pkg/formats/testdata/nginx.spdx", "pkg/formats/testdata/pause.spdx", "pkg/formats/testdata/linux-x64-manifest.spdx.json", "pkg/formats/testdata/syft.json")

func c06Case(c *core.C) {
	r := c.R
	if c.K < len(c06RealFiles) {
		b, err := os.ReadFile(filepath.Join(repoDir(), c06RealFiles[c.K]))
		if err != nil {
			c.Cover("real-file-missing")
			return
		}
		c.Cover("real-files")
		c06Judge(c, b, "real file "+c06RealFiles[c.K], "")
		return
	}
	switch c.K % 3 {
	case 0:
		indent := c01Indents[(c.K/3)%len(c01Indents)]
		var doc *sbom.Document
		var f formats.Format
		switch (c.K / 3) % 4 {
		case 0:
			doc, _ = gen.SPDXDoc(r, c.K, 8)
			f = formats.SPDX23JSON
		case 1:
			doc, _, _ = gen.CDXTree(r, c.K, 14, 8)
			f = formats.CDX13JSON
		case 2:
			doc, _, _ = gen.CDXTree(r, c.K, 14, 8)
			f = formats.CDX14JSON
		default:
			doc, _, _ = gen.CDXTree(r, c.K, 15, 8)
			f = formats.CDX15JSON
		}
		out, err := writeDoc(doc, f, indent)
		if err != nil {
			c.Violatef("write-error", doc.String(), "writing a representable document as %s failed: %v", f, err)
			return
		}
		c.Cover("writer-format:" + string(f))
		c.Cover(fmt.Sprintf("indent:%d", indent))
		if !c06Judge(c, out, fmt.Sprintf("writer output %s indent %d", f, indent), f) {
			return
		}
		// auto vs explicit parse (the detected format selects the parser; the rewind lets it see the whole document)
		da, ea := parseAuto(out)
		de, ee := parseAs(out, f)
		c.Evals(2)
		if ea != nil || ee != nil {
			c.Violatef("parse-after-sniff", nil, "parsing the writer's %s output failed: auto %v, explicit %v", f, ea, ee)
			return
		}
		if why := graphEquivalent(da, de); why != "" {
			c.Violatef("auto-vs-explicit", nil, "ParseStream and ParseStreamWithOptions(%s) disagree on the writer's output: %s", f, why)
			return
		}
		// one writer instance asked for several formats in a row (per-call option sets; the instance itself is built
		// for the first format of the sequence): every output must be in the format that call asked for
		{
			seq := []formats.Format{formats.SPDX23JSON, formats.CDX13JSON, formats.CDX14JSON, formats.CDX15JSON, f}
			r.Shuffle(len(seq), func(i, j int) { seq[i], seq[j] = seq[j], seq[i] })
			w := writer.New(writer.WithFormat(seq[0]))
			for i, g := range seq {
				var buf bytes.Buffer
				var werr error
				if i == 0 {
					werr = w.WriteStream(doc, nopWC{&buf})
				} else {
					werr = w.WriteStreamWithOptions(doc, nopWC{&buf}, &writer.Options{Format: g, RenderOptions: &native.RenderOptions{Indent: indent}, SerializeOptions: &native.SerializeOptions{}})
				}
				if werr != nil {
					c.Cover("one-writer-several-formats:write-error(not judged)")
					continue
				}
				c.Cover("one-writer-several-formats")
				if !c06Judge(c, buf.Bytes(), fmt.Sprintf("output %d (%s) of one writer asked for %v in turn", i, g, seq), g) {
					return
				}
			}
		}
		tree, err := jsonx.Parse(out)
		if err != nil {
			c.Violatef("output-not-json", nil, "writer output is not JSON: %v", err)
			return
		}
		if f == formats.SPDX23JSON {
			markRawSPDX(tree, "")
		}
		lr := rand.New(rand.NewSource(r.Int63()))
		for i, o := range []jsonx.EncOpts{
			{Indent: -1}, {Indent: 3}, {Indent: -1, RandWS: true, R: lr}, {Indent: -1, RandWS: true, R: lr}, {Indent: 1, Shuffle: true, R: lr}, {Indent: -1, Shuffle: true, RandWS: true, R: lr},
			{Indent: 1, Esc: jsonx.EscUnicode, KeepRaw: true, EscKeys: true}, {Indent: 0, Esc: jsonx.EscAllFirst, KeepRaw: true, EscKeys: true},
		} {
			c.Cover(fmt.Sprintf("re-encoding:%d", i))
			if !c06Judge(c, jsonx.Encode(tree, o), fmt.Sprintf("re-encoding %d of writer output %s", i, f), f) {
				return
			}
		}
		if c.WantSample() {
			c.Sample(map[string]any{"kind": "writer output", "format": string(f), "indent": indent, "bytes": len(out), "re_encodings": 8})
		}
	case 1:
		in, label := c06Negative(r, c.K/3)
		c.Cover("negative-kind:" + strings.SplitN(label, ":", 2)[0])
		if c.WantSample() && c.K%31 == 1 {
			c.Sample(map[string]any{"kind": "negative", "label": label, "input": string(in[:min(len(in), 300)])})
		}
		c06Judge(c, in, label, "")
	default:
		var in []byte
		switch r.Intn(3) {
		case 0:
			in = c04Soup(r)
		case 1:
			rep := gen.RepDocs[r.Intn(len(gen.RepDocs))].JSON
			b := []byte(rep)
			for i := 0; i < 1+r.Intn(4); i++ {
				b[r.Intn(len(b))] = byte(r.Intn(256))
			}
			in = b
		default:
			rep := gen.RepDocs[r.Intn(len(gen.RepDocs))].JSON
			in = []byte(rep[:r.Intn(len(rep))])
		}
		c06Judge(c, in, "soup/mutated declaration", "")
	}
}

func c06Negative(r *rand.Rand, k int) ([]byte, string) {
	cdxVer := gen.Pick(r, []string{"1.3", "1.4", "1.5"})
	spdxVer := gen.Pick(r, []string{"SPDX-2.2", "SPDX-2.3"})
	filler := fmt.Sprintf(`"name":%q,"version":1`, gen.TextSafe(r, 6))
	switch k % 14 {
	case 13:
		// a version the library detects but does not read: the declaration must still be reported faithfully
		if r.Intn(2) == 0 {
			return []byte(`{"spdxVersion":"SPDX-2.2","SPDXID":"SPDXRef-DOCUMENT",` + filler + `}`), "declared-version-2.2:json"
		}
		return []byte("SPDXVersion: SPDX-2.2\nDataLicense: CC0-1.0\nSPDXID: SPDXRef-DOCUMENT\nDocumentName: " + gen.TextPlain(r, 6) + "\n"), "declared-version-2.2:tagvalue"
	case 12:
		// valid JSON without a supported declaration whose text quotes a tag-value header on one line
		hdr := "SPDXVersion: " + spdxVer
		decl := gen.Pick(r, []string{`"bomFormat":"CycloneDX","specVersion":"1.6",`, `"spdxVersion":"SPDX-2.1",`, `"spdxVersion":"SPDX-3.0",`, ``, `"bomFormat":"CycloneDX",`, `"specVersion":"` + cdxVer + `",`})
		body := gen.Pick(r, []string{
			`"description":"` + hdr + `"`,
			`"comment":"converted from a file that began with ` + hdr + ` DataLicense: CC0-1.0"`,
			`"notes":["x","` + hdr + `"]`,
			`"` + hdr + `":"as a member name"`,
		})
		sep := gen.Pick(r, []string{"", "\n", "\n  "})
		return []byte(`{` + sep + decl + sep + body + `,` + sep + filler + sep + `}`), "json-without-declaration-quoting-a-tagvalue-header"
	case 0:
		return []byte(`{"metadata":{"bomFormat":"CycloneDX","specVersion":"` + cdxVer + `"},` + filler + `}`), "nested-declaration:cdx"
	case 1:
		return []byte(`{"document":{"spdxVersion":"` + spdxVer + `"},` + filler + `}`), "nested-declaration:spdx"
	case 2:
		return []byte(`[{"bomFormat":"CycloneDX","specVersion":"` + cdxVer + `"}]`), "declaration-in-array:cdx"
	case 3:
		return []byte(`[{"spdxVersion":"` + spdxVer + `"}]`), "declaration-in-array:spdx"
	case 4:
		return []byte(`{"comment":"\"bomFormat\":\"CycloneDX\",\"specVersion\":\"` + cdxVer + `\" \"spdxVersion\":\"` + spdxVer + `\"",` + filler + `}`), "declaration-in-string"
	case 5:
		return []byte(`{"bomFormat":"CycloneDX","specVersion":"` + gen.Pick(r, []string{"1.6", "1.30", "1.40", "2.0", "1", "1.4.0", ""}) + `",` + filler + `}`), "near-miss-version:cdx"
	case 6:
		return []byte(`{"spdxVersion":"` + gen.Pick(r, []string{"SPDX-2.1", "SPDX-3.0", "spdx-2.3", "2.3", "SPDX-2", ""}) + `","SPDXID":"SPDXRef-DOCUMENT",` + filler + `}`), "near-miss-version:spdx"
	case 7:
		return []byte(`{"bomFormat":"CycloneDX",` + filler + `}`), "missing-version:cdx"
	case 8:
		// tag-value: unsupported version on the declaration line, a supported one quoted elsewhere
		bad := gen.Pick(r, []string{"SPDX-2.1", "SPDX-3.0", "SPDX-1.2"})
		q := gen.Pick(r, []string{"'SPDX-2.3'", "\"SPDX-2.3\"", "'SPDX-2.2'", "\"SPDX-2.2\""})
		return []byte("SPDXVersion: " + bad + "\nDataLicense: CC0-1.0\nSPDXID: SPDXRef-DOCUMENT\nDocumentName: x\nDocumentComment: <text>converted from " + q + "</text>\nPackageName: p\n"), "tagvalue-near-miss:version-quoted-on-another-line"
	case 9:
		return []byte("DataLicense: CC0-1.0\nSPDXID: SPDXRef-DOCUMENT\nDocumentName: " + gen.TextPlain(r, 6) + "\nPackageComment: <text>'SPDX-2.3' \"SPDX-2.2\"</text>\n"), "tagvalue-without-declaration"
	case 10:
		return []byte("SPDXVersion: " + gen.Pick(r, []string{"SPDX-2.1", "SPDX-3.0", "spdx-2.3"}) + "\nDataLicense: CC0-1.0\nSPDXID: SPDXRef-DOCUMENT\n"), "tagvalue-near-miss:version"
	default:
		return []byte(gen.TextPlain(r, 40) + "\n" + gen.TextPlain(r, 30) + "\n<xml/>\n"), "no-marker"
	}
}

var _ = io.EOF
