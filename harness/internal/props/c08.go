package props

import (
	"fmt"
	"math/rand"

	"github.com/protobom/protobom/pkg/sbom"
	"verifharness/internal/core"
	"verifharness/internal/gen"
)

// C08 — graph-editing operations preserve well-formedness (invariant monitor after every step).

var c08Types = []sbom.Edge_Type{sbom.Edge_contains, sbom.Edge_dependsOn, sbom.Edge_other}

type c08Op struct {
	name       string
	normalised bool // result must be normalised as well as well-formed
}

var c08Ops = []c08Op{
	{"Union", true}, {"Intersect", true}, {"Add", true}, {"RemoveNodes", true},
	{"RelateNodeAtID", false}, {"RelateNodeListAtID", false},
	{"NodeGraph", true}, {"NodeSiblings", true}, {"NodeDescendants", true}, {"GetNodesByPurlType", true}, {"Copy", false},
}

// c08Apply runs op on (a, b) with the given argument choices and checks the invariants on the result.
// It returns the resulting list (nil when the operation has none) and whether a violation was recorded.
func c08Apply(c *core.C, op c08Op, a, b *sbom.NodeList, ids []string, r *rand.Rand, tag string) (res *sbom.NodeList, bad bool) {
	before, beforeB := gen.Canon(a), gen.Canon(b)
	if guard(c, op.name, map[string]any{"history": tag, "receiver": before, "argument": beforeB}, func() { res, bad = c08ApplyRaw(c, op, a, b, ids, r, tag) }) {
		return nil, true
	}
	return res, bad
}

func c08ApplyRaw(c *core.C, op c08Op, a, b *sbom.NodeList, ids []string, r *rand.Rand, tag string) (*sbom.NodeList, bool) {
	var res *sbom.NodeList
	before := gen.Canon(a)
	beforeB := gen.Canon(b)
	arg := ""
	switch op.name {
	case "Union":
		res = a.Union(b)
	case "Intersect":
		res = a.Intersect(b)
	case "Add":
		a.Add(b)
		res = a
	case "RemoveNodes":
		var rm []string
		for _, id := range ids {
			if r.Intn(3) == 0 {
				rm = append(rm, id)
			}
		}
		if r.Intn(6) == 0 {
			rm = append(rm, "absent", "")
		}
		arg = fmt.Sprint(rm)
		wantIDs := gen.Minus(gen.IDSet(a), toSet(rm))
		wantRoots := gen.Minus(gen.RootSet(a), toSet(rm))
		wantTriples := gen.TriplesAmong(a, wantIDs)
		a.RemoveNodes(rm)
		res = a
		if !gen.IDSet(res).Equal(wantIDs) || len(res.Nodes) != len(wantIDs) {
			c.Violatef("removenodes-nodes", map[string]any{"before": before, "remove": rm, "after": gen.Canon(res)}, "%s RemoveNodes(%v) on %s left nodes %s, want %s", tag, rm, before, gen.IDSet(res), wantIDs)
			return res, true
		}
		if !gen.TripleSet(res).Equal(wantTriples) {
			c.Violatef("removenodes-edges", map[string]any{"before": before, "remove": rm, "after": gen.Canon(res)}, "%s RemoveNodes(%v) on %s left edges %s, want %s", tag, rm, before, gen.TripleSet(res), wantTriples)
			return res, true
		}
		if !gen.RootSet(res).Equal(wantRoots) {
			c.Violatef("removenodes-roots", map[string]any{"before": before, "remove": rm, "after": gen.Canon(res)}, "%s RemoveNodes(%v) on %s left roots %s, want %s", tag, rm, before, gen.RootSet(res), wantRoots)
			return res, true
		}
	case "RelateNodeAtID":
		at := pickID(r, ids)
		n := &sbom.Node{Id: pickID(r, append(ids, "fresh"))}
		et := gen.Pick(r, c08Types)
		arg = fmt.Sprintf("node=%s at=%s type=%s", n.Id, at, et)
		err := a.RelateNodeAtID(n, at, et)
		res = a
		if err != nil && gen.Canon(a) != before {
			c.Violatef("relate-error-but-changed", nil, "%s RelateNodeAtID(%s) returned %v but changed the list %s -> %s", tag, arg, err, before, gen.Canon(a))
			return res, true
		}
	case "RelateNodeListAtID":
		at := pickID(r, ids)
		et := gen.Pick(r, c08Types)
		arg = fmt.Sprintf("at=%s type=%s", at, et)
		err := a.RelateNodeListAtID(b, at, et)
		res = a
		if err != nil && gen.Canon(a) != before {
			c.Violatef("relate-error-but-changed", nil, "%s RelateNodeListAtID(%s) returned %v but changed the list", tag, arg, err)
			return res, true
		}
	case "NodeGraph":
		arg = pickID(r, ids)
		res = a.NodeGraph(arg)
	case "NodeSiblings":
		arg = pickID(r, ids)
		res = a.NodeSiblings(arg)
	case "NodeDescendants":
		id := pickID(r, ids)
		d := 1 + r.Intn(5)
		arg = fmt.Sprintf("%s depth=%d", id, d)
		res = a.NodeDescendants(id, d)
	case "GetNodesByPurlType":
		arg = gen.Pick(r, []string{"npm", "deb", "golang", ""})
		res = a.GetNodesByPurlType(arg)
	case "Copy":
		res = a.Copy()
	}
	c.Evals(1)
	c.Cover("op:" + op.name)
	if res == nil {
		c.Cover("result:nil:" + op.name)
		return nil, false
	}
	detail := map[string]any{"op": op.name, "arg": arg, "receiver_before": before, "argument": beforeB, "result": gen.Canon(res)}
	if why := gen.WellFormed(res); why != "" {
		c.Violatef("illformed-"+op.name, detail, "%s %s(%s) on well-formed %s [arg list %s] gave an ill-formed result: %s; result %s", tag, op.name, arg, before, beforeB, why, gen.Canon(res))
		return res, true
	}
	if op.normalised {
		if why := gen.Normalised(res); why != "" {
			c.Violatef("unnormalised-"+op.name, detail, "%s %s(%s) on %s [arg list %s] gave an un-normalised result: %s", tag, op.name, arg, before, beforeB, why)
			return res, true
		}
	}
	return res, false
}

func toSet(xs []string) gen.Set {
	s := gen.Set{}
	for _, x := range xs {
		s.Add(x)
	}
	return s
}

func pickID(r *rand.Rand, ids []string) string {
	switch r.Intn(12) {
	case 0:
		return "absent"
	case 1:
		return ""
	}
	return ids[r.Intn(len(ids))]
}

var c08Small3 []*sbom.NodeList
var c08Small2 []*sbom.NodeList

func c08Lists(tier string) []*sbom.NodeList {
	if c08Small3 == nil {
		c08Small3 = gen.EnumerateWellFormed([]string{"a", "b", "c"}, sbom.Edge_contains)
		c08Small2 = gen.EnumerateWellFormed([]string{"a", "b"}, sbom.Edge_contains)
	}
	return c08Small3
}

// c08Others: the argument lists a receiver is paired with. Thorough: every list on <=3 ids.
// Quick: every list on <=2 ids plus 48 lists on 3 ids chosen by the case PRNG.
func c08Others(c *core.C, lists []*sbom.NodeList) []*sbom.NodeList {
	if c.Thorough() {
		return lists
	}
	out := append([]*sbom.NodeList{}, c08Small2...)
	for i := 0; i < 48; i++ {
		out = append(out, lists[c.R.Intn(len(lists))])
	}
	return out
}

func c08Random(tier string) int {
	if tier == "thorough" {
		return 400000
	}
	return 40000
}

func init() {
	core.Register(&core.Prop{
		ID: "C08", Level: "exploration",
		Rule: "cases 0..4300: the k-th of ALL 4301 well-formed node lists over <=3 ids and one edge type (every subset of nodes x edge triples x roots, enumerated), " +
			"taken as receiver through every unary operation with every id argument (all removal subsets, all start ids, depths 1..4) and through Union/Intersect/Add/RelateNodeListAtID against " +
			"EVERY list of the universe as argument (thorough: all 4301^2 ordered pairs; quick: all 73 lists on <=2 ids plus 48 PRNG-chosen lists on 3 ids per receiver); " +
			"cases >= L: random programs of <=30 operations over a pool of lists on 12 ids (a quarter of the programs: 20..64 ids with dense hubs, so that merged target lists have tens of entries) and 3 edge types where results re-enter the pool (half of the programs share structure between pool members, half deep-copy). " +
			"An invariant monitor (well-formed; normalised for merge/removal/extraction) runs on every result. distinct = hash of (operation, canonical operands); non-trivial = operand with >=1 node.",
		Assumptions: []string{"operands are well-formed (checked before each step); NodeDescendants depth >= 1", "nil results (documented for absent start nodes) are not judged"},
		NCases:      func(tier string) int { return len(c08Lists(tier)) + c08Random(tier) },
		Case:        c08Case,
		ExhaustiveSubspaces: func(tier string) []string {
			out := []string{"all 4301 well-formed lists on <=3 ids as receivers of every unary operation with every argument (removal subsets, start ids, depths 1..4)"}
			if tier == "thorough" {
				out = append(out, "all 4301^2 ordered pairs for Union, Intersect, Add, RelateNodeListAtID")
			} else {
				out = append(out, "all pairs (receiver on <=3 ids) x (argument on <=2 ids) for Union, Intersect, Add, RelateNodeListAtID")
			}
			return out
		},
	})
}

func c08Case(c *core.C) {
	lists := c08Lists(c.Tier)
	if c.K < len(lists) {
		c08Exhaustive(c, lists, c.K)
		return
	}
	c08Program(c)
}

func c08Exhaustive(c *core.C, lists []*sbom.NodeList, k int) {
	ids := []string{"a", "b", "c"}
	base := lists[k]
	if len(base.Nodes) > 0 {
		c.DistinctStr("ex:" + gen.Canon(base))
	}
	if c.WantSample() && len(base.Edges) > 0 {
		c.Sample(map[string]any{"kind": "exhaustive receiver", "list": gen.Canon(base)})
	}
	c.Cover("exhaustive_receivers")
	// unary operations with every argument of the universe (+ absent, empty)
	args := append(append([]string{}, ids...), "absent", "")
	for _, id := range args {
		for _, opn := range []string{"NodeGraph", "NodeSiblings"} {
			var res *sbom.NodeList
			a := gen.Clone(base)
			if opn == "NodeGraph" {
				res = a.NodeGraph(id)
			} else {
				res = a.NodeSiblings(id)
			}
			c08Judge(c, opn, id, base, nil, res, true)
		}
		for d := 1; d <= 4; d++ {
			a := gen.Clone(base)
			c08Judge(c, "NodeDescendants", fmt.Sprintf("%s/%d", id, d), base, nil, a.NodeDescendants(id, d), true)
		}
		for _, id2 := range append(append([]string{}, ids...), "fresh") {
			a := gen.Clone(base)
			err := a.RelateNodeAtID(&sbom.Node{Id: id2}, id, sbom.Edge_contains)
			if err != nil && gen.Canon(a) != gen.Canon(base) {
				c.Violatef("relate-error-but-changed", nil, "RelateNodeAtID(%s at %s) errored but changed %s", id2, id, gen.Canon(base))
			}
			c08Judge(c, "RelateNodeAtID", id2+"@"+id, base, nil, a, false)
		}
	}
	// every subset of ids removed
	for m := 0; m < 1<<len(ids); m++ {
		var rm []string
		for i, id := range ids {
			if m&(1<<i) != 0 {
				rm = append(rm, id)
			}
		}
		a := gen.Clone(base)
		a.RemoveNodes(rm)
		wantIDs := gen.Minus(gen.IDSet(base), toSet(rm))
		wantRoots := gen.Minus(gen.RootSet(base), toSet(rm))
		wantTriples := gen.TriplesAmong(base, wantIDs)
		det := map[string]any{"before": gen.Canon(base), "remove": rm, "after": gen.Canon(a)}
		switch {
		case !gen.IDSet(a).Equal(wantIDs) || len(a.Nodes) != len(wantIDs):
			c.Violatef("removenodes-nodes", det, "RemoveNodes(%v) on %s left %s", rm, gen.Canon(base), gen.Canon(a))
		case !gen.TripleSet(a).Equal(wantTriples):
			c.Violatef("removenodes-edges", det, "RemoveNodes(%v) on %s left %s", rm, gen.Canon(base), gen.Canon(a))
		case !gen.RootSet(a).Equal(wantRoots):
			c.Violatef("removenodes-roots", det, "RemoveNodes(%v) on %s left roots %s, want %s", rm, gen.Canon(base), gen.RootSet(a), wantRoots)
		}
		c08Judge(c, "RemoveNodes", fmt.Sprint(rm), base, nil, a, true)
	}
	c08Judge(c, "GetNodesByPurlType", "npm", base, nil, gen.Clone(base).GetNodesByPurlType("npm"), true)
	// binary operations against every list of the universe
	for _, other := range c08Others(c, lists) {
		a, b := gen.Clone(base), gen.Clone(other)
		c08Judge(c, "Union", "", base, other, a.Union(b), true)
		a, b = gen.Clone(base), gen.Clone(other)
		c08Judge(c, "Intersect", "", base, other, a.Intersect(b), true)
		a, b = gen.Clone(base), gen.Clone(other)
		a.Add(b)
		c08Judge(c, "Add", "", base, other, a, true)
		for _, at := range ids {
			a, b = gen.Clone(base), gen.Clone(other)
			err := a.RelateNodeListAtID(b, at, sbom.Edge_contains)
			if err != nil && gen.Canon(a) != gen.Canon(base) {
				c.Violatef("relate-error-but-changed", nil, "RelateNodeListAtID at %s errored but changed %s", at, gen.Canon(base))
			}
			c08Judge(c, "RelateNodeListAtID", at, base, other, a, false)
		}
	}
}

func c08Judge(c *core.C, op, arg string, recv, other, res *sbom.NodeList, normalised bool) {
	c.Evals(1)
	c.Cover("op:" + op)
	if res == nil {
		c.Cover("result:nil:" + op)
		return
	}
	if why := gen.WellFormed(res); why != "" {
		c.Violatef("illformed-"+op, map[string]any{"op": op, "arg": arg, "receiver": gen.Canon(recv), "argument": gen.Canon(other), "result": gen.Canon(res)},
			"%s(%s) on %s [argument %s] gave an ill-formed result (%s): %s", op, arg, gen.Canon(recv), gen.Canon(other), why, gen.Canon(res))
		return
	}
	if normalised {
		if why := gen.Normalised(res); why != "" {
			c.Violatef("unnormalised-"+op, map[string]any{"op": op, "arg": arg, "receiver": gen.Canon(recv), "argument": gen.Canon(other)},
				"%s(%s) on %s [argument %s] gave an un-normalised result (%s)", op, arg, gen.Canon(recv), gen.Canon(other), why)
		}
	}
}

func c08Program(c *core.C) {
	r := c.R
	ids := make([]string, 12)
	pe := 0.02 + 0.2*r.Float64()
	if c.K%8 == 3 || c.K%8 == 4 {
		// wide lists: hubs whose edges have tens of targets, so that merged target lists are long
		ids = make([]string, 20+r.Intn(45))
		pe = 0.3 + 0.65*r.Float64()
		c.Cover("program:wide-fan-out")
	}
	for i := range ids {
		ids[i] = fmt.Sprintf("n%d", i)
	}
	mk := func(r *rand.Rand, id string) *sbom.Node {
		n := &sbom.Node{Id: id}
		if r.Intn(3) == 0 {
			n.Identifiers = map[int32]string{1: "pkg:" + gen.Pick(r, []string{"npm", "deb", "golang"}) + "/" + id}
		}
		return n
	}
	share := c.K%2 == 0
	pool := []*sbom.NodeList{}
	for i := 0; i < 4; i++ {
		// half of the initial lists are well-formed but NOT normalised: one stored edge per target, some stated twice
		nl := gen.RandomNodeList(r, gen.GraphOpts{Universe: ids, EdgeTypes: c08Types, PNode: 0.2 + 0.6*r.Float64(), PEdge: pe, PRoot: 0.3 * r.Float64(), NodeMaker: mk, SplitEdges: i%2 == 1})
		if i%2 == 1 && len(nl.Edges) > 0 {
			for j := 0; j < 1+r.Intn(3); j++ {
				nl.Edges = append(nl.Edges, gen.Clone(nl.Edges[r.Intn(len(nl.Edges))]))
			}
			r.Shuffle(len(nl.Edges), func(a, b int) { nl.Edges[a], nl.Edges[b] = nl.Edges[b], nl.Edges[a] })
		}
		pool = append(pool, spareList(nl))
	}
	pool = append(pool, &sbom.NodeList{}, sbom.NewNodeList())
	steps := 5 + r.Intn(26)
	trace := []string{}
	nontrivial := false
	for s := 0; s < steps; s++ {
		op := c08Ops[r.Intn(len(c08Ops))]
		ai, bi := r.Intn(len(pool)), r.Intn(len(pool))
		a, b := pool[ai], pool[bi]
		if why := gen.WellFormed(a); why != "" {
			c.Violatef("history-illformed-operand", map[string]any{"trace": trace, "share": share}, "after the operations %v pool member %d became ill-formed without being the result of the last step: %s", trace, ai, why)
			return
		}
		if why := gen.WellFormed(b); why != "" {
			c.Violatef("history-illformed-operand", map[string]any{"trace": trace, "share": share}, "after the operations %v pool member %d became ill-formed: %s", trace, bi, why)
			return
		}
		if !share {
			a, b = gen.Clone(a), gen.Clone(b)
		}
		if len(a.Nodes) > 0 {
			nontrivial = true
		}
		trace = append(trace, fmt.Sprintf("%s(%d,%d)", op.name, ai, bi))
		res, bad := c08Apply(c, op, a, b, ids, r, fmt.Sprintf("step %d of %v:", s, trace))
		if bad {
			return
		}
		if res != nil {
			if len(pool) < 12 {
				pool = append(pool, res)
			} else {
				pool[r.Intn(len(pool))] = res
			}
		}
		// the invariant must keep holding for EVERY list produced so far, not only for the one just returned
		for pi, pl := range pool {
			if why := gen.WellFormed(pl); why != "" {
				c.Violatef("history-illformed-earlier-result", map[string]any{"trace": trace, "share": share}, "after the operations %v list %d of the pool is ill-formed although no operation was applied to it since it was produced: %s", trace, pi, why)
				return
			}
		}
		if !share {
			pool[ai] = a // in-place operations took effect on the copy
		}
	}
	if nontrivial {
		c.DistinctStr(fmt.Sprint(trace, gen.Canon(pool[0])))
	}
	if c.WantSample() {
		c.Sample(map[string]any{"kind": "program", "shared_structure": share, "trace": trace, "first_list": gen.Canon(pool[0])})
	}
}
