package props

import (
	"encoding/json"
	"fmt"
	"math/rand"
	"os"
	"path/filepath"
	"sort"
	"strings"

	"github.com/protobom/protobom/pkg/formats"
	"github.com/protobom/protobom/pkg/sbom"
	"verifharness/internal/core"
	"verifharness/internal/gen"
	"verifharness/internal/jsonx"
)

// C03 — translation never silently drops or invents nodes, edges or references.
// The writer's output is decoded with encoding/json into generic maps; the name tables below are the
// harness's own transcription of the SPDX 2.3 / CycloneDX specifications (not imported from protobom).

var spdxRelName = map[int32][]string{
	1: {"AMENDS"}, 2: {"ANCESTOR_OF"}, 3: {"BUILD_DEPENDENCY_OF"}, 4: {"BUILD_TOOL_OF"}, 5: {"CONTAINS"}, 6: {"CONTAINED_BY"}, 7: {"COPY_OF"},
	8: {"DATA_FILE_OF"}, 9: {"DEPENDENCY_MANIFEST_OF"}, 10: {"DEPENDS_ON"}, 11: {"DEPENDENCY_OF"}, 12: {"DESCENDANT_OF"}, 13: {"DESCRIBES"},
	14: {"DESCRIBED_BY"}, 15: {"DEV_DEPENDENCY_OF"}, 16: {"DEV_TOOL_OF"}, 17: {"DISTRIBUTION_ARTIFACT"}, 18: {"DOCUMENTATION_OF"}, 19: {"DYNAMIC_LINK"},
	20: {"EXAMPLE_OF"}, 21: {"EXPANDED_FROM_ARCHIVE"}, 22: {"FILE_ADDED"}, 23: {"FILE_DELETED"}, 24: {"FILE_MODIFIED"}, 25: {"GENERATES"},
	26: {"GENERATED_FROM"}, 27: {"METAFILE_OF"}, 28: {"OPTIONAL_COMPONENT_OF"}, 29: {"OPTIONAL_DEPENDENCY_OF"}, 30: {"OTHER"}, 31: {"PACKAGE_OF"},
	32: {"PATCH_APPLIED", "PATCH_FOR"}, 33: {"HAS_PREREQUISITE"}, 34: {"PREREQUISITE_FOR"}, 35: {"PROVIDED_DEPENDENCY_OF"}, 36: {"REQUIREMENT_DESCRIPTION_FOR"},
	37: {"RUNTIME_DEPENDENCY_OF"}, 38: {"SPECIFICATION_FOR"}, 39: {"STATIC_LINK"}, 40: {"TEST_OF"}, 41: {"TEST_CASE_OF"}, 42: {"TEST_DEPENDENCY_OF"},
	43: {"TEST_TOOL_OF"}, 44: {"VARIANT_OF"},
}

var spdxAlgoName = map[int32]string{1: "MD5", 2: "SHA1", 3: "SHA256", 4: "SHA384", 5: "SHA512", 6: "SHA3-256", 7: "SHA3-384", 8: "SHA3-512",
	9: "BLAKE2b-256", 10: "BLAKE2b-384", 11: "BLAKE2b-512", 12: "BLAKE3", 14: "ADLER32", 15: "MD4", 16: "MD6", 17: "SHA224"}

var cdxAlgoName = map[int32]string{1: "MD5", 2: "SHA-1", 3: "SHA-256", 4: "SHA-384", 5: "SHA-512", 6: "SHA3-256", 7: "SHA3-384", 8: "SHA3-512",
	9: "BLAKE2b-256", 10: "BLAKE2b-384", 11: "BLAKE2b-512", 12: "BLAKE3"}

var c03Formats = []formats.Format{formats.SPDX23JSON, formats.CDX12JSON, formats.CDX13JSON, formats.CDX14JSON, formats.CDX15JSON, formats.CDX10JSON, formats.CDX11JSON}

func isAutoID(id string) bool {
	if !strings.HasPrefix(id, "protobom-") {
		return false
	}
	return strings.Contains(strings.Split(id, "--")[0], "-auto")
}

type jmap = map[string]any

func jstr(m jmap, k string) string {
	s, _ := m[k].(string)
	return s
}
func jarr(m jmap, k string) []any {
	a, _ := m[k].([]any)
	return a
}

// containment forest? (each node <=1 contains-parent, no cycle through contains)
func containsForest(nl *sbom.NodeList) bool {
	pm, bad := parentMap(nl)
	if bad != "" {
		return false
	}
	for id := range pm {
		seen := map[string]bool{}
		for cur := id; ; {
			if seen[cur] {
				return false
			}
			seen[cur] = true
			p, ok := pm[cur]
			if !ok {
				break
			}
			cur = p
		}
	}
	return true
}

// containsAcyclic reports whether the contains edges among present nodes form no cycle (self loops included).
func containsAcyclic(nl *sbom.NodeList) bool {
	ids := gen.IDSet(nl)
	out := map[string][]string{}
	for _, e := range nl.Edges {
		if e.Type != sbom.Edge_contains || !ids.Has(e.From) {
			continue
		}
		for _, t := range e.To {
			if ids.Has(t) {
				out[e.From] = append(out[e.From], t)
			}
		}
	}
	state := map[string]int{}
	var visit func(u string) bool
	visit = func(u string) bool {
		switch state[u] {
		case 1:
			return false
		case 2:
			return true
		}
		state[u] = 1
		for _, v := range out[u] {
			if !visit(v) {
				return false
			}
		}
		state[u] = 2
		return true
	}
	for id := range ids {
		if !visit(id) {
			return false
		}
	}
	return true
}

// checkSPDXOutput decodes the output as plain JSON and compares it with the document.
func checkSPDXOutput(c *core.C, d *sbom.Document, out []byte, det map[string]any) bool {
	var top jmap
	if err := json.Unmarshal(out, &top); err != nil {
		c.Violatef("spdx-output-not-json", det, "SPDX output is not JSON: %v", err)
		return false
	}
	defined := map[string]int{}
	algos := map[string]map[string]string{}
	for _, key := range []string{"packages", "files"} {
		for _, e := range jarr(top, key) {
			m, _ := e.(jmap)
			id := jstr(m, "SPDXID")
			if !strings.HasPrefix(id, "SPDXRef-") {
				c.Violatef("spdx-element-id-without-prefix", det, "SPDX output defines an element whose SPDXID %q lacks the SPDXRef- prefix", id)
				return false
			}
			id = strings.TrimPrefix(id, "SPDXRef-")
			defined[id]++
			algos[id] = map[string]string{}
			for _, cs := range jarr(m, "checksums") {
				cm, _ := cs.(jmap)
				algos[id][jstr(cm, "algorithm")] = jstr(cm, "checksumValue")
			}
		}
	}
	for _, n := range d.NodeList.Nodes {
		switch defined[n.Id] {
		case 1:
		case 0:
			c.Violatef("spdx-node-missing", det, "node %q of the document is not in the SPDX output (%d nodes in, %d elements out)", n.Id, len(d.NodeList.Nodes), len(defined))
			return false
		default:
			c.Violatef("spdx-node-duplicated", det, "node %q appears %d times in the SPDX output", n.Id, defined[n.Id])
			return false
		}
		for a, v := range n.Hashes {
			if name, ok := spdxAlgoName[a]; ok {
				if algos[n.Id][name] != v {
					c.Violatef("spdx-checksum-name", det, "node %q: checksum %s=%s not found under the specification's algorithm name in the output (have %v)", n.Id, name, v, algos[n.Id])
					return false
				}
			}
		}
	}
	ids := gen.IDSet(d.NodeList)
	for id := range defined {
		if !ids.Has(id) {
			c.Violatef("spdx-node-invented", det, "SPDX output defines element %q which is not a node of the document", id)
			return false
		}
	}
	have := gen.Set{}
	for _, e := range jarr(top, "relationships") {
		m, _ := e.(jmap)
		// an element reference is "SPDXRef-<id>"; a bare NONE / NOASSERTION is the specification's "no element"
		// value, not a reference to an element that happens to be called NONE
		ref := func(v string) string {
			if strings.HasPrefix(v, "SPDXRef-") {
				return strings.TrimPrefix(v, "SPDXRef-")
			}
			return "(not an element reference: " + v + ")"
		}
		a := ref(jstr(m, "spdxElementId"))
		b := ref(jstr(m, "relatedSpdxElement"))
		t := jstr(m, "relationshipType")
		have.Add(a + "\x00" + t + "\x00" + b)
		for _, end := range []string{a, b} {
			if end != "DOCUMENT" && defined[end] == 0 {
				c.Violatef("spdx-dangling-reference", det, "relationship %s %s %s references element %q which the output does not define", a, t, b, end)
				return false
			}
		}
	}
	want := gen.Set{}
	for _, e := range d.NodeList.Edges {
		names, ok := spdxRelName[int32(e.Type)]
		if !ok {
			continue
		}
		for _, t := range e.To {
			found := false
			for _, nm := range names {
				if have.Has(e.From + "\x00" + nm + "\x00" + t) {
					found = true
				}
				want.Add(e.From + "\x00" + nm + "\x00" + t)
			}
			if !found {
				c.Violatef("spdx-relationship-missing", det, "edge %s -%s-> %s is not in the SPDX output as %v", e.From, e.Type, t, names)
				return false
			}
		}
	}
	for _, r := range d.NodeList.RootElements {
		want.Add("DOCUMENT\x00DESCRIBES\x00" + r)
		if !have.Has("DOCUMENT\x00DESCRIBES\x00" + r) {
			c.Violatef("spdx-root-missing", det, "root element %q is not described by the document in the SPDX output", r)
			return false
		}
	}
	for k := range have {
		if !want.Has(k) {
			c.Violatef("spdx-relationship-invented", det, "SPDX output holds relationship %q which is not in the document", strings.ReplaceAll(k, "\x00", " "))
			return false
		}
	}
	return true
}

type cdxComp struct {
	ref, name, version, parent string
	algs                       map[string]string
}

func walkCDX(m jmap, parent string, out *[]cdxComp) {
	c := cdxComp{ref: jstr(m, "bom-ref"), name: jstr(m, "name"), version: jstr(m, "version"), parent: parent, algs: map[string]string{}}
	for _, h := range jarr(m, "hashes") {
		hm, _ := h.(jmap)
		c.algs[jstr(hm, "alg")] = jstr(hm, "content")
	}
	*out = append(*out, c)
	for _, s := range jarr(m, "components") {
		if sm, ok := s.(jmap); ok {
			walkCDX(sm, c.ref, out)
		}
	}
}

func checkCDXOutput(c *core.C, d *sbom.Document, f formats.Format, out []byte, det map[string]any) bool {
	var top jmap
	if err := json.Unmarshal(out, &top); err != nil {
		c.Violatef("cdx-output-not-json", det, "CycloneDX output is not JSON: %v", err)
		return false
	}
	var comps []cdxComp
	root := d.NodeList.RootElements[0]
	if md, ok := top["metadata"].(jmap); ok {
		if mc, ok := md["component"].(jmap); ok {
			walkCDX(mc, "\x00metadata", &comps)
		}
	}
	for _, e := range jarr(top, "components") {
		if m, ok := e.(jmap); ok {
			walkCDX(m, "\x00top", &comps)
		}
	}
	byRef := map[string][]cdxComp{}
	byNV := map[string]int{}
	for _, cc := range comps {
		if cc.ref != "" {
			byRef[cc.ref] = append(byRef[cc.ref], cc)
		} else {
			byNV[cc.name+"\x00"+cc.version]++
		}
	}
	forest := containsForest(d.NodeList)
	pm, _ := parentMap(d.NodeList)
	for _, n := range d.NodeList.Nodes {
		cnt := len(byRef[n.Id])
		if isAutoID(n.Id) { // the serializer erases generated refs by design: match by (name, version)
			ver := n.Version
			cnt += byNV[n.Name+"\x00"+ver]
			if cnt == 0 && ver == "" {
				cnt = byNV[n.Name+"\x000.0.0"]
			}
			if cnt > 1 {
				cnt = 1 // several generated-id nodes may share name and version
			}
		}
		if cnt == 0 {
			c.Violatef("cdx-node-missing", det, "node %q of the document is not in the %s output (neither metadata.component nor components[] nor nested)", n.Id, f)
			return false
		}
		if _, rootHasParent := pm[root]; cnt > 1 && forest && !rootHasParent && n.Id != "" {
			c.Violatef("cdx-node-duplicated", det, "node %q appears %d times in the %s output although containment is a forest", n.Id, cnt, f)
			return false
		}
		if !isAutoID(n.Id) {
			for a, v := range n.Hashes {
				if name, ok := cdxAlgoName[a]; ok && byRef[n.Id][0].algs[name] != v {
					c.Violatef("cdx-hash-name", det, "node %q: hash %s=%s not found under the specification's algorithm name in the output (have %v)", n.Id, name, v, byRef[n.Id][0].algs)
					return false
				}
			}
		}
	}
	ids := gen.IDSet(d.NodeList)
	for ref := range byRef {
		if !ids.Has(ref) {
			c.Violatef("cdx-node-invented", det, "%s output defines component %q which is not a node of the document", f, ref)
			return false
		}
	}
	// containment: judged when it is a forest and the root has no parent
	if _, rootHasParent := pm[root]; forest && !rootHasParent {
		for child, par := range pm {
			if isAutoID(child) || isAutoID(par) {
				continue
			}
			ok := false
			for _, cc := range byRef[child] {
				if cc.parent == par || (par == root && cc.parent == "\x00top") {
					ok = true
				}
			}
			if !ok {
				where := "absent"
				if len(byRef[child]) > 0 {
					where = "under " + strings.ReplaceAll(byRef[child][0].parent, "\x00", "#")
				}
				c.Violatef("cdx-containment-lost", det, "contains edge %q -> %q is not expressed by nesting in the %s output (component is %s)", par, child, f, where)
				return false
			}
		}
	}
	// containment that is not a forest but has no cycle (a component contained by several others): every contains
	// relationship must still be expressed - the component appears below each of its containers
	if !forest && containsAcyclic(d.NodeList) {
		isContained := map[string]bool{}
		for _, e := range d.NodeList.Edges {
			if e.Type == sbom.Edge_contains {
				for _, t := range e.To {
					isContained[t] = true
				}
			}
		}
		if !isContained[root] {
			c.Cover("containment-dag-judged")
			for _, e := range d.NodeList.Edges {
				// containment by the root has no notation of its own (a top-level position); for a component that
				// is also nested elsewhere it is not judged
				if e.Type != sbom.Edge_contains || isAutoID(e.From) || !ids.Has(e.From) || e.From == root {
					continue
				}
				for _, child := range e.To {
					if isAutoID(child) || !ids.Has(child) || child == e.From {
						continue
					}
					ok := false
					for _, cc := range byRef[child] {
						if cc.parent == e.From {
							ok = true
						}
					}
					if !ok {
						c.Violatef("cdx-containment-lost:shared-component", det, "contains edge %q -> %q (a component with several containers) is not expressed by nesting in the %s output", e.From, child, f)
						return false
					}
				}
			}
		}
	}
	// dependencies
	deps := map[string]gen.Set{}
	for _, e := range jarr(top, "dependencies") {
		m, _ := e.(jmap)
		ref := jstr(m, "ref")
		if deps[ref] == nil {
			deps[ref] = gen.Set{}
		}
		if len(byRef[ref]) == 0 {
			c.Violatef("cdx-dangling-reference", det, "dependencies[].ref %q names a component the %s output does not define", ref, f)
			return false
		}
		for _, t := range jarr(m, "dependsOn") {
			ts, _ := t.(string)
			deps[ref].Add(ts)
			if len(byRef[ts]) == 0 {
				c.Violatef("cdx-dangling-reference", det, "dependencies[%q].dependsOn names %q which the %s output does not define", ref, ts, f)
				return false
			}
		}
	}
	wantDeps := gen.Set{}
	for _, e := range d.NodeList.Edges {
		if e.Type != sbom.Edge_dependsOn {
			continue
		}
		for _, t := range e.To {
			wantDeps.Add(e.From + "\x00" + t)
			if isAutoID(e.From) || isAutoID(t) {
				continue
			}
			if deps[e.From] == nil || !deps[e.From].Has(t) {
				c.Violatef("cdx-dependency-lost", det, "dependsOn edge %q -> %q is not in the dependencies of the %s output", e.From, t, f)
				return false
			}
		}
	}
	for ref, ts := range deps {
		for t := range ts {
			if !wantDeps.Has(ref + "\x00" + t) {
				c.Violatef("cdx-dependency-invented", det, "%s output lists dependency %q -> %q which is not in the document", f, ref, t)
				return false
			}
		}
	}
	return true
}

// identity attributes both formats support
func identityDiff(in, out *sbom.Node, f formats.Format, isRoot bool, mdName string) string {
	isCDX := strings.Contains(string(f), "cyclonedx")
	if !(isCDX && isRoot && mdName != "") && in.Name != out.Name {
		return fmt.Sprintf("name %q -> %q", in.Name, out.Name)
	}
	spdxFile := !isCDX && in.Type == sbom.Node_FILE
	if !spdxFile {
		lowCDX := f == formats.CDX12JSON || f == formats.CDX13JSON
		if in.Version != out.Version && !(lowCDX && in.Version == "" && out.Version == "0.0.0") {
			return fmt.Sprintf("version %q -> %q", in.Version, out.Version)
		}
		if in.Identifiers[1] != out.Identifiers[1] {
			return fmt.Sprintf("purl %q -> %q", in.Identifiers[1], out.Identifiers[1])
		}
		cpeIn := in.Identifiers[3]
		if cpeIn == "" {
			cpeIn = in.Identifiers[2]
		}
		cpeOut := out.Identifiers[3]
		if cpeOut == "" || (!isCDX && in.Identifiers[3] == "") {
			if out.Identifiers[2] != "" {
				cpeOut = out.Identifiers[2]
			}
		}
		if isCDX {
			// CycloneDX has one cpe member and the reader classifies by the "cpe:2.3" prefix: compare the value
			if cpeIn != cpeOut && !(cpeIn == in.Identifiers[3] && out.Identifiers[2] == cpeIn) && !(cpeIn == in.Identifiers[2] && out.Identifiers[3] == cpeIn) {
				return fmt.Sprintf("cpe %q -> %q", cpeIn, cpeOut)
			}
		} else if in.Identifiers[3] != out.Identifiers[3] || in.Identifiers[2] != out.Identifiers[2] {
			return fmt.Sprintf("cpe %q/%q -> %q/%q", in.Identifiers[2], in.Identifiers[3], out.Identifiers[2], out.Identifiers[3])
		}
	}
	for a, v := range in.Hashes {
		_, s := spdxAlgoName[a]
		_, cx := cdxAlgoName[a]
		if s && cx && out.Hashes[a] != v { // algorithms both formats support
			return fmt.Sprintf("hash %d: %q -> %q", a, v, out.Hashes[a])
		}
	}
	return ""
}

var c03RealFiles = []string{
	"test/conformance/testdata/spdx/2.3/json/bom-v0.4.1_cirros-0.4.0.spdx.json", "examples/vt.spdx.json", "examples/curl.spdx.json",
	"test/conformance/testdata/spdx/2.3/json/trivy-0.42.1_mageia-5.1.spdx.json",
	"test/conformance/testdata/spdx/2.3/json/kubernetes_kubernetes_d61cbac69aae97db1839bd2e0e86d68f26b353a7.json", "examples/nginx.spdx.json",
	"test/conformance/testdata/cyclonedx/1.4/json/bom-1.4.json", "test/conformance/testdata/cyclonedx/1.5/json/bom-1.5.json",
	"pkg/formats/testdata/minified.cdx.json", "examples/juice-shop-11.1.2.cdx.json",
	"test/conformance/testdata/cyclonedx/1.5/json/syft-0.96.0_rails-5.0.0.cdx.json", "test/conformance/testdata/cyclonedx/1.5/json/syft-0.96.0_plone-5.2.cdx.json",
}

func repoDir() string {
	if d := os.Getenv("VERIF_REPO"); d != "" {
		return d
	}
	return "/repo"
}

func c03RealN(tier string) int {
	if tier == "thorough" {
		return len(c03RealFiles) * 200
	}
	return len(c03RealFiles) * 10
}

func init() {
	core.Register(&core.Prop{
		ID: "C03", Level: "exploration",
		Rule: "cases < R: real SBOM number k mod 12 of the repository (6 SPDX, 6 CycloneDX; the first round unmodified, later rounds under JSON-level mutations chosen by the case PRNG: drop/duplicate components or packages, re-parent nested components, add relationships of every type / dependency entries between existing elements, strip bom-refs), parsed by protobom, then written in EVERY registered format (SPDX 2.3, CycloneDX 1.0-1.5); " +
			"cases >= R: generated well-formed graphs deliberately outside the round-trip classes (several purposes, dependsOn and contains between arbitrary nodes, DAG and cyclic containment, all edge types, 1 or several roots). " +
			"Each successful output is decoded with encoding/json only and compared with the document: every node present (exactly once when containment is a forest), every expressible relationship present under the specification's name (harness's own tables), nothing invented, no dangling reference; " +
			"then read back and identity attributes (id, name, version, purl/CPE, hashes of shared algorithms) compared. Writer errors are acceptable outcomes. Generated documents: a sixth of the identifiers come from the library's own generator, a quarter of the documents use short related identifiers, a third are stored with split and interleaved edge records, and a third are written after ANOTHER document that uses the same identifiers in other roles. distinct = hash of (output bytes); non-trivial = document with >=2 nodes and >=1 edge.",
		Assumptions: []string{"ids need no JSON escapes and do not start with SPDXRef-/DocumentRef- (tools-golang raw-bytes id readers: known finding C05 spdx-raw-string-escape)", "nodes with generated (protobom-auto) ids are matched by name and version because the CycloneDX serializer erases those refs by design", "UNKNOWN edge types are not relationships a format can express"},
		NCases: func(tier string) int {
			if tier == "thorough" {
				return c03RealN(tier) + 60000
			}
			return c03RealN(tier) + 3000
		},
		Case:    c03Case,
		CaseCPU: 120,
	})
}

// c03Generated: arbitrary well-formed graph.
func c03Generated(c *core.C) *sbom.Document {
	r := c.R
	doc := sbom.NewDocument()
	doc.Metadata.Id = "urn:uuid:c03-" + fmt.Sprint(r.Int63())
	doc.Metadata.Version = "1"
	if r.Intn(3) == 0 {
		doc.Metadata.Name = gen.TextSafe(r, 6)
	}
	n := 1 + r.Intn(10)
	ids := gen.UniqueIDsSep(r, n, func(r *rand.Rand) string {
		if r.Intn(6) == 0 {
			// identifiers made by the library's own generator from ordinary seeds: they carry the reserved prefix
			// but only the ones flagged "auto" are generated placeholders
			seeds := []string{"autoconf", "automake", "x-auto-y", "node", "auto", gen.IDSpdx(r), "my-auto"}
			switch r.Intn(3) {
			case 0:
				return sbom.NewNodeIdentifier(gen.Pick(r, seeds) + gen.IDSpdx(r)[:1])
			case 1:
				return sbom.NewNodeIdentifier("node", gen.Pick(r, seeds)+gen.IDSpdx(r)[:1])
			}
			return sbom.NewNodeIdentifier(gen.Pick(r, seeds), gen.IDSpdx(r))
		}
		if r.Intn(12) == 0 {
			// identifiers spelled like words the formats reserve for something else
			return gen.Pick(r, []string{"NONE", "NOASSERTION", "none", "NoAssertion", "null", "true", "ROOT", "root", "metadata", "component", "SPDXRef", "Document"})
		}
		if r.Intn(2) == 0 {
			return gen.IDSpdx(r)
		}
		id := gen.IDCdx(r)
		if strings.HasPrefix(id, "SPDXRef-") || strings.HasPrefix(id, "DocumentRef-") || id == "DOCUMENT" {
			return gen.IDSpdx(r)
		}
		return id
	}, "1-./:|,+#@_")
	for i, id := range ids {
		var nd *sbom.Node
		switch r.Intn(3) {
		case 0:
			nd = gen.SPDXPackageNode(r, id, -1)
		case 1:
			nd = gen.CDXNode(r, id, 15, c.K, i == 0)
		default:
			nd = gen.SPDXFileNode(r, id, -1)
		}
		if nd.Type == sbom.Node_PACKAGE && r.Intn(3) == 0 {
			nd.PrimaryPurpose = []sbom.Purpose{sbom.Purpose(1 + r.Intn(28)), sbom.Purpose(1 + r.Intn(28))}
		}
		doc.NodeList.Nodes = append(doc.NodeList.Nodes, nd)
	}
	types := []sbom.Edge_Type{sbom.Edge_contains, sbom.Edge_dependsOn, sbom.Edge_dependsOn, sbom.Edge_Type(1 + r.Intn(44))}
	edges, roots, shape := gen.Shape(r, c.K, ids, types)
	c.Cover("generated-shape:" + shape)
	doc.NodeList.Edges = edges
	if r.Intn(3) == 0 {
		// the same graph stored differently: several records per source and type, interleaved with other sources'
		doc.NodeList.Edges = gen.SplitPresentation(r, doc.NodeList).Edges
		c.Cover("generated-edges-split-and-interleaved")
	}
	if len(roots) == 0 || r.Intn(4) != 0 {
		roots = []string{ids[0]} // mostly single-rooted so that CycloneDX can be written
	}
	doc.NodeList.RootElements = roots
	if r.Intn(6) == 0 {
		// two containment (and dependency) links below non-root nodes whose identifiers glue to the same string
		q := gen.GluedKeyQuad(r)
		if !gen.IDSet(doc.NodeList).Has(q[0]) && !gen.IDSet(doc.NodeList).Has(q[1]) && !gen.IDSet(doc.NodeList).Has(q[2]) && !gen.IDSet(doc.NodeList).Has(q[3]) && q[0] != q[3] {
			for _, id := range q {
				doc.NodeList.Nodes = append(doc.NodeList.Nodes, gen.CDXNode(r, id, 15, c.K, false))
			}
			top := doc.NodeList.RootElements[0]
			doc.NodeList.Edges = append(doc.NodeList.Edges,
				&sbom.Edge{From: top, Type: sbom.Edge_contains, To: []string{q[0], q[1]}},
				&sbom.Edge{From: q[0], Type: sbom.Edge_contains, To: []string{q[2]}},
				&sbom.Edge{From: q[1], Type: sbom.Edge_contains, To: []string{q[3]}},
				&sbom.Edge{From: q[0], Type: sbom.Edge_dependsOn, To: []string{q[2]}},
				&sbom.Edge{From: q[1], Type: sbom.Edge_dependsOn, To: []string{q[3]}})
			c.Cover("generated-with-glued-key-quadruple")
		}
	}
	return doc
}

// c03MutateReal applies up to three JSON-level mutations to a real SBOM.
func c03MutateReal(r *rand.Rand, raw []byte, rounds int) ([]byte, []string) {
	v, err := jsonx.Parse(raw)
	if err != nil {
		return raw, []string{"unparsed"}
	}
	var applied []string
	isCDX := v.Get("bomFormat") != nil
	for i := 0; i < rounds; i++ {
		if isCDX {
			comps := v.Get("components")
			if comps == nil || comps.Kind != jsonx.Array || len(comps.Elems) == 0 {
				continue
			}
			refs := []string{}
			for _, e := range comps.Elems {
				if e.Kind == jsonx.Object && e.Get("bom-ref") != nil && e.Get("bom-ref").Kind == jsonx.String {
					refs = append(refs, e.Get("bom-ref").Str)
				}
			}
			switch r.Intn(6) {
			case 0:
				k := r.Intn(len(comps.Elems))
				comps.Elems = append(comps.Elems[:k], comps.Elems[k+1:]...)
				applied = append(applied, "drop-component")
			case 1:
				comps.Elems = append(comps.Elems, comps.Elems[r.Intn(len(comps.Elems))].Clone())
				applied = append(applied, "duplicate-component")
			case 2: // re-parent: nest one component into another
				if len(comps.Elems) >= 2 {
					a, b := r.Intn(len(comps.Elems)), r.Intn(len(comps.Elems))
					if a != b && comps.Elems[a].Kind == jsonx.Object && comps.Elems[b].Kind == jsonx.Object {
						child := comps.Elems[b]
						sub := comps.Elems[a].Get("components")
						if sub == nil || sub.Kind != jsonx.Array {
							sub = jsonx.Arr()
							comps.Elems[a].Set("components", sub)
						}
						sub.Elems = append(sub.Elems, child)
						comps.Elems = append(comps.Elems[:b], comps.Elems[b+1:]...)
						applied = append(applied, "re-parent")
					}
				}
			case 3:
				if len(refs) >= 2 {
					deps := v.Get("dependencies")
					if deps == nil || deps.Kind != jsonx.Array {
						deps = jsonx.Arr()
						v.Set("dependencies", deps)
					}
					deps.Elems = append(deps.Elems, jsonx.Obj(jsonx.M("ref", jsonx.S(refs[r.Intn(len(refs))])), jsonx.M("dependsOn", jsonx.Arr(jsonx.S(refs[r.Intn(len(refs))]), jsonx.S(refs[r.Intn(len(refs))])))))
					applied = append(applied, "add-dependency")
				}
			case 4:
				e := comps.Elems[r.Intn(len(comps.Elems))]
				if e.Kind == jsonx.Object {
					e.Del("bom-ref")
					applied = append(applied, "strip-bom-ref")
				}
			case 5:
				// nest a fresh three-level subtree under an existing component
				e := comps.Elems[r.Intn(len(comps.Elems))]
				if e.Kind == jsonx.Object {
					mk := func(ref string, sub ...*jsonx.Value) *jsonx.Value {
						o := jsonx.Obj(jsonx.M("bom-ref", jsonx.S(ref)), jsonx.M("type", jsonx.S("library")), jsonx.M("name", jsonx.S(ref)), jsonx.M("version", jsonx.S("1")))
						if len(sub) > 0 {
							o.Set("components", jsonx.Arr(sub...))
						}
						return o
					}
					tag := fmt.Sprintf("verif-%d", r.Intn(1000000))
					e.Set("components", jsonx.Arr(mk(tag+"-l1", mk(tag+"-l2", mk(tag+"-l3")))))
					applied = append(applied, "add-nested-subtree")
				}
			}
		} else {
			pk := v.Get("packages")
			if pk == nil || pk.Kind != jsonx.Array || len(pk.Elems) == 0 {
				continue
			}
			ids := []string{}
			for _, e := range pk.Elems {
				if e.Kind == jsonx.Object && e.Get("SPDXID") != nil {
					ids = append(ids, e.Get("SPDXID").Str)
				}
			}
			rels := v.Get("relationships")
			if rels == nil || rels.Kind != jsonx.Array {
				rels = jsonx.Arr()
				v.Set("relationships", rels)
			}
			switch r.Intn(4) {
			case 0:
				k := r.Intn(len(pk.Elems))
				pk.Elems = append(pk.Elems[:k], pk.Elems[k+1:]...)
				applied = append(applied, "drop-package")
			case 1:
				pk.Elems = append(pk.Elems, pk.Elems[r.Intn(len(pk.Elems))].Clone())
				applied = append(applied, "duplicate-package")
			case 2:
				if len(ids) >= 2 {
					names := spdxRelName[int32(1+r.Intn(44))]
					rels.Elems = append(rels.Elems, jsonx.Obj(jsonx.M("spdxElementId", jsonx.S(ids[r.Intn(len(ids))])), jsonx.M("relationshipType", jsonx.S(names[0])), jsonx.M("relatedSpdxElement", jsonx.S(ids[r.Intn(len(ids))]))))
					applied = append(applied, "add-relationship:"+names[0])
				}
			case 3:
				if len(ids) >= 3 {
					a, b, cc := ids[r.Intn(len(ids))], ids[r.Intn(len(ids))], ids[r.Intn(len(ids))]
					for _, p := range [][2]string{{a, b}, {b, cc}} {
						rels.Elems = append(rels.Elems, jsonx.Obj(jsonx.M("spdxElementId", jsonx.S(p[0])), jsonx.M("relationshipType", jsonx.S("CONTAINS")), jsonx.M("relatedSpdxElement", jsonx.S(p[1]))))
					}
					applied = append(applied, "add-contains-chain")
				}
			}
		}
	}
	return jsonx.Encode(v, jsonx.EncOpts{Indent: 1}), applied
}

func c03Case(c *core.C) {
	r := c.R
	var doc *sbom.Document
	var origin string
	realN := c03RealN(c.Tier)
	if c.K < realN {
		fi := c.K % len(c03RealFiles)
		raw, err := os.ReadFile(filepath.Join(repoDir(), c03RealFiles[fi]))
		if err != nil {
			c.Cover("real-file-missing")
			return
		}
		muts := []string{"unmodified"}
		if c.K >= len(c03RealFiles) {
			raw, muts = c03MutateReal(r, raw, 1+r.Intn(3))
		}
		var perr error
		if guard(c, "parse-real", c03RealFiles[fi], func() { doc, perr = parseAuto(raw) }) {
			return
		}
		if perr != nil || doc == nil {
			c.Cover("real-file-unparsed(after mutation)")
			return
		}
		origin = fmt.Sprintf("%s %v", filepath.Base(c03RealFiles[fi]), muts)
		c.Cover("real-file:" + filepath.Base(c03RealFiles[fi]))
		for _, m := range muts {
			c.Cover("real-mutation:" + strings.SplitN(m, ":", 2)[0])
		}
		// the well-formedness of parsed graphs is C05's subject: only well-formed ones are in C03's class
		if why := gen.WellFormed(doc.NodeList); why != "" {
			c.Cover("real-parse-ill-formed(skipped; C05)")
			return
		}
	} else {
		doc = c03Generated(c)
		origin = "generated"
	}
	if doc.NodeList == nil || doc.Metadata == nil {
		return
	}
	small := len(doc.NodeList.Nodes) <= 12
	if gen.IsRelatedIDs(doc.NodeList) {
		c.Cover("identifiers:short-and-related(prefixes, suffixes, concatenations of one another)")
	}
	det := map[string]any{"origin": origin}
	if small {
		det["document"] = doc.String()
	}
	nontrivial := len(doc.NodeList.Nodes) >= 2 && len(doc.NodeList.Edges) >= 1
	if c.WantSample() && nontrivial && small {
		c.Sample(map[string]any{"origin": origin, "graph": gen.Canon(doc.NodeList)})
	}
	snapshot := gen.Clone(doc)
	if r.Intn(3) == 0 && len(doc.NodeList.Nodes) >= 2 {
		// the same process first writes ANOTHER document that uses the same identifiers in other roles (what was
		// nested is top-level and the other way round); what it leaves behind must not show in this document's output
		pre := gen.Clone(doc)
		pre.NodeList.Edges = nil
		ns := pre.NodeList.Nodes
		perm := r.Perm(len(ns))
		pre.NodeList.RootElements = []string{ns[perm[0]].Id}
		for i := 1; i < len(perm); i++ {
			parent := ns[perm[r.Intn(i)]].Id
			if r.Intn(3) == 0 {
				parent = ns[perm[0]].Id
			}
			pre.NodeList.Edges = append(pre.NodeList.Edges, &sbom.Edge{From: parent, Type: sbom.Edge_contains, To: []string{ns[perm[i]].Id}})
		}
		for _, f := range c03Formats {
			if guard(c, "write:"+string(f), det, func() { _, _ = writeDoc(pre, f, 2) }) {
				return
			}
		}
		c.Cover("written-after-a-document-with-the-same-identifiers-in-other-roles")
		det["written_before"] = gen.Canon(pre.NodeList)
	}
	for _, f := range c03Formats {
		det["format"] = string(f)
		var out []byte
		var err error
		if guard(c, "write:"+string(f), det, func() { out, err = writeDoc(doc, f, 2) }) {
			return
		}
		c.Evals(1)
		if err != nil {
			c.Cover("writer-error(acceptable):" + string(f))
			continue
		}
		if f == formats.CDX10JSON || f == formats.CDX11JSON {
			c.Cover("cdx-1.0/1.1-output(not judged: the specification has neither metadata nor dependencies there)")
			continue
		}
		c.Cover("output-checked:" + string(f))
		if nontrivial {
			c.DistinctBytes(append([]byte(f), out...))
		}
		isCDX := strings.Contains(string(f), "cyclonedx")
		if small {
			det["output_head"] = string(out[:min(len(out), 3000)])
		}
		ok := true
		if isCDX {
			if len(doc.NodeList.RootElements) != 1 {
				continue
			}
			ok = checkCDXOutput(c, snapshot, f, out, det)
		} else {
			ok = checkSPDXOutput(c, snapshot, out, det)
		}
		if !ok {
			return
		}
		// read back: identity attributes
		var back *sbom.Document
		rb := func() {
			if f == formats.CDX12JSON {
				back, err = parseAs(out, f)
			} else {
				back, err = parseAuto(out)
			}
		}
		if guard(c, "read-back:"+string(f), det, rb) {
			return
		}
		c.Evals(1)
		if err != nil {
			c.Violatef("read-back-error:"+string(f), det, "protobom cannot read its own %s output: %v", f, err)
			return
		}
		byNV := map[string]*sbom.Node{}
		nvCount := map[string]int{}
		for _, n := range back.NodeList.Nodes {
			byNV[n.Name+"\x00"+n.Version] = n
			nvCount[n.Name+"\x00"+n.Version]++
		}
		root := ""
		if len(snapshot.NodeList.RootElements) > 0 {
			root = snapshot.NodeList.RootElements[0]
		}
		for _, n := range snapshot.NodeList.Nodes {
			o := nodeByID(back.NodeList, n.Id)
			if isCDX && isAutoID(n.Id) && n.Id != root {
				// generated ids are erased on output and regenerated positionally on input
				o = nil
			}
			if o == nil && isCDX && isAutoID(n.Id) {
				o = byNV[n.Name+"\x00"+n.Version]
				if o == nil && n.Version == "" {
					o = byNV[n.Name+"\x000.0.0"]
				}
			}
			if o == nil {
				c.Violatef("read-back-id-changed:"+strings.SplitN(string(f), ";", 2)[0], det, "node %q is not found under its identifier after writing %s and reading back (%d nodes in, %d back)", n.Id, f, len(snapshot.NodeList.Nodes), len(back.NodeList.Nodes))
				return
			}
			if isCDX && isAutoID(n.Id) && nvCount[o.Name+"\x00"+o.Version] > 1 {
				continue // several reference-less components share name and version: no way to tell them apart
			}
			if d := identityDiff(n, o, f, n.Id == root, snapshot.Metadata.Name); d != "" {
				c.Violatef("read-back-identity:"+strings.Fields(d)[0], det, "node %q after %s round trip: %s", n.Id, f, d)
				return
			}
		}
	}
}

var _ = sort.Strings
