package props

import (
	"fmt"
	"math/rand"
	"os"
	"path/filepath"
	"regexp"
	"strings"

	"github.com/protobom/protobom/pkg/formats"
	"github.com/protobom/protobom/pkg/sbom"
	"google.golang.org/protobuf/proto"
	"verifharness/internal/core"
	"verifharness/internal/gen"
	"verifharness/internal/jsonx"
)

// C05 — parsed graphs are well-formed, deterministic and layout-independent.

var idSafeRe = regexp.MustCompile(`^[A-Za-z0-9.-]+$`)

// ---- the harness's own input generators (independent of protobom's writers)

func c05Text(r *rand.Rand) *jsonx.Value { return jsonx.S(gen.TextSafe(r, 10)) }

func c05SPDX(r *rand.Rand) *jsonx.Value {
	np, nf := r.Intn(6), r.Intn(4)
	if np+nf == 0 {
		np = 1
	}
	ids := gen.UniqueIDs(r, np+nf, gen.IDSpdx)
	if r.Intn(5) == 0 {
		// an element whose identifier proper begins like the reference marker, or like the document's own name
		// (the full SPDXID is then "SPDXRef-SPDXRef-x"): a legal id, and one more element of the document
		i := r.Intn(len(ids))
		ids[i] = gen.Pick(r, []string{"SPDXRef-", "SPDXRef", "DOCUMENT-", "DocumentRef-", "SPDXRef-SPDXRef-"}) + ids[i]
	}
	ref := func(id string) *jsonx.Value { v := jsonx.S("SPDXRef-" + id); v.RawPos = true; return v }
	raw := func(s string) *jsonx.Value { v := jsonx.S(s); v.RawPos = true; return v }
	actor := func() *jsonx.Value {
		s := gen.Pick(r, []string{"Person: ", "Organization: "}) + gen.TextPlain(r, 8)
		if r.Intn(2) == 0 {
			s += " (" + gen.IDSpdx(r) + "@example.com)"
		}
		return raw(s)
	}
	doc := jsonx.Obj(
		jsonx.M("spdxVersion", jsonx.S("SPDX-2.3")), jsonx.M("dataLicense", jsonx.S("CC0-1.0")), jsonx.M("SPDXID", raw("SPDXRef-DOCUMENT")),
		jsonx.M("name", c05Text(r)), jsonx.M("documentNamespace", jsonx.S("https://example.com/ns/"+gen.IDSpdx(r))),
		jsonx.M("creationInfo", jsonx.Obj(jsonx.M("created", jsonx.S("2023-11-15T20:34:58Z")), jsonx.M("creators", jsonx.Arr(raw("Tool: gen-1"), actor())))),
	)
	pk := jsonx.Arr()
	for i := 0; i < np; i++ {
		p := jsonx.Obj(jsonx.M("name", c05Text(r)), jsonx.M("SPDXID", ref(ids[i])), jsonx.M("downloadLocation", jsonx.S("NOASSERTION")))
		if r.Intn(2) == 0 {
			p.Set("versionInfo", c05Text(r))
		}
		if r.Intn(2) == 0 {
			p.Set("supplier", actor())
		}
		if r.Intn(2) == 0 {
			p.Set("originator", actor())
		}
		if r.Intn(2) == 0 {
			p.Set("description", c05Text(r))
			p.Set("copyrightText", c05Text(r))
		}
		if r.Intn(2) == 0 {
			p.Set("checksums", jsonx.Arr(jsonx.Obj(jsonx.M("algorithm", jsonx.S("SHA256")), jsonx.M("checksumValue", jsonx.S("ab12")))))
		}
		if r.Intn(2) == 0 {
			p.Set("externalRefs", jsonx.Arr(jsonx.Obj(jsonx.M("referenceCategory", jsonx.S("PACKAGE-MANAGER")), jsonx.M("referenceType", jsonx.S("purl")), jsonx.M("referenceLocator", jsonx.S("pkg:generic/"+ids[i]+"@1")))))
		}
		if nf > 0 && r.Intn(3) == 0 {
			p.Set("hasFiles", jsonx.Arr(ref(ids[np+r.Intn(nf)])))
		}
		pk.Elems = append(pk.Elems, p)
	}
	doc.Set("packages", pk)
	fl := jsonx.Arr()
	for i := 0; i < nf; i++ {
		fl.Elems = append(fl.Elems, jsonx.Obj(jsonx.M("fileName", jsonx.S("./"+gen.TextSafe(r, 8))), jsonx.M("SPDXID", ref(ids[np+i])),
			jsonx.M("checksums", jsonx.Arr(jsonx.Obj(jsonx.M("algorithm", jsonx.S("SHA1")), jsonx.M("checksumValue", jsonx.S("cd34"))))), jsonx.M("copyrightText", c05Text(r))))
	}
	if nf > 0 {
		doc.Set("files", fl)
	}
	rels := jsonx.Arr()
	for i := 0; i < r.Intn(8); i++ {
		names := spdxRelName[int32(1+r.Intn(44))]
		rels.Elems = append(rels.Elems, jsonx.Obj(jsonx.M("spdxElementId", ref(gen.Pick(r, ids))), jsonx.M("relationshipType", jsonx.S(names[0])), jsonx.M("relatedSpdxElement", ref(gen.Pick(r, ids)))))
	}
	for i := 0; i < r.Intn(3); i++ {
		rels.Elems = append(rels.Elems, jsonx.Obj(jsonx.M("spdxElementId", raw("SPDXRef-DOCUMENT")), jsonx.M("relationshipType", jsonx.S("DESCRIBES")), jsonx.M("relatedSpdxElement", ref(gen.Pick(r, ids)))))
	}
	if r.Intn(4) == 0 {
		rels.Elems = append(rels.Elems, jsonx.Obj(jsonx.M("spdxElementId", ref(gen.Pick(r, ids))), jsonx.M("relationshipType", jsonx.S("DEPENDS_ON")), jsonx.M("relatedSpdxElement", raw(gen.Pick(r, []string{"NOASSERTION", "NONE"})))))
	}
	if r.Intn(6) == 0 {
		// the document "describes" a special value
		rels.Elems = append(rels.Elems, jsonx.Obj(jsonx.M("spdxElementId", raw("SPDXRef-DOCUMENT")), jsonx.M("relationshipType", jsonx.S("DESCRIBES")), jsonx.M("relatedSpdxElement", raw(gen.Pick(r, []string{"NOASSERTION", "NONE"})))))
	}
	if r.Intn(8) == 0 {
		// special value on the left-hand side
		rels.Elems = append(rels.Elems, jsonx.Obj(jsonx.M("spdxElementId", raw(gen.Pick(r, []string{"NOASSERTION", "NONE"}))), jsonx.M("relationshipType", jsonx.S("CONTAINS")), jsonx.M("relatedSpdxElement", ref(gen.Pick(r, ids)))))
	}
	doc.Set("relationships", rels)
	switch r.Intn(6) {
	case 0, 1, 2:
		doc.Set("documentDescribes", jsonx.Arr(ref(gen.Pick(r, ids))))
	case 3:
		doc.Set("documentDescribes", jsonx.Arr(raw(gen.Pick(r, []string{"NONE", "NOASSERTION"})), ref(gen.Pick(r, ids))))
	}
	return doc
}

type c05CDXStats struct{ refs map[string]int }

func c05Component(r *rand.Rand, depth int, pool *[]string, st *c05CDXStats, ver string) *jsonx.Value {
	types := []string{"application", "library", "framework", "container", "operating-system", "device", "firmware", "file"}
	if ver == "1.5" {
		types = append(types, "platform", "device-driver", "machine-learning-model", "data")
	}
	c := jsonx.Obj(jsonx.M("type", jsonx.S(gen.Pick(r, types))), jsonx.M("name", c05Text(r)))
	if r.Intn(4) != 0 {
		c.Set("version", c05Text(r))
	}
	switch r.Intn(8) {
	case 0, 1: // no bom-ref: generated identifier expected
	case 2: // duplicate of an earlier ref
		if len(*pool) > 0 {
			id := gen.Pick(r, *pool)
			c.Set("bom-ref", jsonx.S(id))
			st.refs[id]++
			break
		}
		fallthrough
	default:
		id := gen.IDCdx(r)
		c.Set("bom-ref", jsonx.S(id))
		*pool = append(*pool, id)
		st.refs[id]++
	}
	if r.Intn(3) == 0 {
		c.Set("hashes", jsonx.Arr(jsonx.Obj(jsonx.M("alg", jsonx.S("SHA-256")), jsonx.M("content", jsonx.S("ab12")))))
	}
	if r.Intn(3) == 0 {
		c.Set("purl", jsonx.S("pkg:generic/"+gen.IDSpdx(r)+"@1"))
	}
	if r.Intn(3) == 0 {
		c.Set("licenses", jsonx.Arr(jsonx.Obj(jsonx.M("license", jsonx.Obj(jsonx.M("id", jsonx.S("MIT")))))))
	}
	if r.Intn(3) == 0 {
		c.Set("externalReferences", jsonx.Arr(jsonx.Obj(jsonx.M("type", jsonx.S("website")), jsonx.M("url", jsonx.S("https://example.com/"+gen.TextSafe(r, 5))))))
	}
	if depth > 0 && r.Intn(2) == 0 {
		sub := jsonx.Arr()
		for i := 0; i < 1+r.Intn(3); i++ {
			sub.Elems = append(sub.Elems, c05Component(r, depth-1, pool, st, ver))
		}
		if r.Intn(10) == 0 { // a component nested in itself
			sub.Elems = append(sub.Elems, c.Clone())
			if br := c.Get("bom-ref"); br != nil {
				st.refs[br.Str]++
			}
		}
		c.Set("components", sub)
	}
	return c
}

func c05CDX(r *rand.Rand, ver string) (*jsonx.Value, *c05CDXStats) {
	st := &c05CDXStats{refs: map[string]int{}}
	var pool []string
	doc := jsonx.Obj(jsonx.M("bomFormat", jsonx.S("CycloneDX")), jsonx.M("specVersion", jsonx.S(ver)), jsonx.M("version", jsonx.N(fmt.Sprint(1+r.Intn(5)))))
	if r.Intn(3) != 0 {
		doc.Set("serialNumber", jsonx.S("urn:uuid:"+gen.IDSpdx(r)))
	}
	md := jsonx.Obj()
	if r.Intn(4) != 0 {
		md.Set("component", c05Component(r, 1, &pool, st, ver))
	}
	if r.Intn(3) != 0 {
		doc.Set("metadata", md)
	}
	comps := jsonx.Arr()
	for i := 0; i < r.Intn(5); i++ {
		comps.Elems = append(comps.Elems, c05Component(r, 3, &pool, st, ver))
	}
	if len(comps.Elems) > 0 || r.Intn(2) == 0 {
		doc.Set("components", comps)
	}
	if len(pool) >= 2 && r.Intn(2) == 0 {
		doc.Set("dependencies", jsonx.Arr(jsonx.Obj(jsonx.M("ref", jsonx.S(pool[0])), jsonx.M("dependsOn", jsonx.Arr(jsonx.S(pool[1]))))))
	}
	return doc, st
}

// markRawSPDX marks the string positions tools-golang reads from raw bytes in a parsed SPDX tree.
func markRawSPDX(v *jsonx.Value, key string) {
	switch v.Kind {
	case jsonx.String:
		switch key {
		case "SPDXID", "spdxElementId", "relatedSpdxElement", "documentDescribes", "hasFiles", "supplier", "originator", "creators", "annotator",
			"snippetFromFile", "reference", "externalDocumentId":
			v.RawPos = true
		}
	case jsonx.Array:
		for _, e := range v.Elems {
			markRawSPDX(e, key)
		}
	case jsonx.Object:
		for _, m := range v.Members {
			markRawSPDX(m.Val, m.Key)
		}
	}
}

// spdxRefsResolve: do the input's own references resolve?
func spdxRefsResolve(v *jsonx.Value) bool {
	def := gen.Set{}
	def.Add("SPDXRef-DOCUMENT")
	// the special values of relatedSpdxElement are not references: nothing to resolve
	def.Add("NOASSERTION")
	def.Add("NONE")
	for _, k := range []string{"packages", "files", "snippets"} {
		if a := v.Get(k); a != nil && a.Kind == jsonx.Array {
			for _, e := range a.Elems {
				if id := e.Get("SPDXID"); id != nil && id.Kind == jsonx.String {
					def.Add(id.Str)
				}
			}
		}
	}
	ok := true
	chk := func(x *jsonx.Value) {
		if x == nil || x.Kind != jsonx.String || !def.Has(x.Str) {
			ok = false
		}
	}
	if a := v.Get("relationships"); a != nil && a.Kind == jsonx.Array {
		for _, e := range a.Elems {
			if e.Kind != jsonx.Object {
				ok = false
				continue
			}
			chk(e.Get("spdxElementId"))
			chk(e.Get("relatedSpdxElement"))
		}
	}
	if a := v.Get("documentDescribes"); a != nil && a.Kind == jsonx.Array {
		for _, e := range a.Elems {
			chk(e)
		}
	}
	if a := v.Get("packages"); a != nil && a.Kind == jsonx.Array {
		for _, p := range a.Elems {
			if hf := p.Get("hasFiles"); hf != nil && hf.Kind == jsonx.Array {
				for _, e := range hf.Elems {
					chk(e)
				}
			}
		}
	}
	return ok
}

func collectRefs(v *jsonx.Value, out map[string]int) {
	switch v.Kind {
	case jsonx.Object:
		if br := v.Get("bom-ref"); br != nil && br.Kind == jsonx.String && v.Get("name") != nil {
			out[br.Str]++
		}
		if sid := v.Get("SPDXID"); sid != nil && sid.Kind == jsonx.String {
			out[strings.TrimPrefix(sid.Str, "SPDXRef-")]++
		}
		for _, m := range v.Members {
			if m.Key == "components" || m.Key == "metadata" || m.Key == "component" || m.Key == "packages" || m.Key == "files" {
				collectRefs(m.Val, out)
			}
		}
	case jsonx.Array:
		for _, e := range v.Elems {
			collectRefs(e, out)
		}
	}
}

// graphEquivalent compares two parses: nodes by id (full content), edge triples, roots, and metadata minus id/date.
func graphEquivalent(a, b *sbom.Document) string {
	if (a == nil) != (b == nil) {
		return "one parse failed"
	}
	if a == nil {
		return ""
	}
	if !gen.IDSet(a.NodeList).Equal(gen.IDSet(b.NodeList)) || len(a.NodeList.Nodes) != len(b.NodeList.Nodes) {
		return fmt.Sprintf("node identifiers differ: only in first %s, only in second %s", gen.Minus(gen.IDSet(a.NodeList), gen.IDSet(b.NodeList)), gen.Minus(gen.IDSet(b.NodeList), gen.IDSet(a.NodeList)))
	}
	if !gen.TripleSet(a.NodeList).Equal(gen.TripleSet(b.NodeList)) {
		return "edges differ"
	}
	if !gen.RootSet(a.NodeList).Equal(gen.RootSet(b.NodeList)) {
		return "roots differ"
	}
	for _, n := range a.NodeList.Nodes {
		// with duplicate ids compare the multiset of nodes carrying the id
		var xs, ys []string
		for _, m := range a.NodeList.Nodes {
			if m.Id == n.Id {
				bb, _ := detMarshal.Marshal(m)
				xs = append(xs, string(bb))
			}
		}
		for _, m := range b.NodeList.Nodes {
			if m.Id == n.Id {
				bb, _ := detMarshal.Marshal(m)
				ys = append(ys, string(bb))
			}
		}
		if sortedJoin(xs) != sortedJoin(ys) {
			return fmt.Sprintf("node %q differs: %s", n.Id, firstDiff(n, nodeByID(b.NodeList, n.Id)))
		}
	}
	ma, mb := gen.Clone(a.Metadata), gen.Clone(b.Metadata)
	ma.Id, mb.Id, ma.Date, mb.Date = "", "", nil, nil
	if !proto.Equal(ma, mb) {
		return "metadata differs: " + firstDiff(ma, mb)
	}
	return ""
}

func c05RealN(tier string) int {
	if tier == "thorough" {
		return len(c03RealFiles) * 40
	}
	return len(c03RealFiles) * 2
}

func init() {
	core.Register(&core.Prop{
		ID: "C05", Level: "exploration",
		Rule: "inputs by case range: real SBOMs of the repository (unmodified and under the C03 JSON-level mutations); then k mod 4: (0) SPDX 2.3 JSON from the harness's own generator (references resolve), (1) CycloneDX 1.3/1.4/1.5 JSON from the harness's own generator " +
			"(arbitrary nesting, duplicate and missing bom-refs, absent metadata / metadata.component, a component nested in itself), (2) protobom writer output for SPDX-class documents, (3) writer output for CycloneDX trees. " +
			"Each input is parsed twice, parsed with the format stated explicitly, and parsed under >=9 re-encodings of the same JSON value (compact, 3 indents, 2 random white-space layouts, 2 recursive member shuffles, 3 string-escape modes); all parses must be equivalent with identical identifiers " +
			"(nodes by id with full content, edge triples, roots, metadata minus id/date). The invariant monitor checks closure, non-empty ids, uniqueness relative to the input's own ids, and the alphabet and uniqueness of generated ids. " +
			"NewNodeIdentifier is run on TEXT_ANY seeds (invalid UTF-8, reserved words in every position) 3x each. distinct = hash of the input bytes; non-trivial = parse with >=2 nodes.",
		Assumptions: []string{"escape re-encodings of SPDX strings that tools-golang reads from raw bytes (ids, relationship endpoints, actors) are classified under the known finding spdx-raw-string-escape; all other strings and all white-space/member-order layouts are deciding", "array order is part of the JSON value and is not permuted"},
		NCases: func(tier string) int {
			if tier == "thorough" {
				return c05RealN(tier) + 120000
			}
			return c05RealN(tier) + 9600
		},
		Case:    c05Case,
		CaseCPU: 120,
	})
}

func c05Case(c *core.C) {
	r := c.R
	c05Ident(c)
	var tree *jsonx.Value
	var raw []byte
	var origin string
	var explicit formats.Format
	realN := c05RealN(c.Tier)
	resolves := true
	inputRefs := map[string]int{}
	switch {
	case c.K < realN:
		fi := c.K % len(c03RealFiles)
		b, err := os.ReadFile(filepath.Join(repoDir(), c03RealFiles[fi]))
		if err != nil {
			return
		}
		muts := []string{"unmodified"}
		if c.K >= len(c03RealFiles) {
			b, muts = c03MutateReal(r, b, 1+r.Intn(3))
		}
		tree, err = jsonx.Parse(b)
		if err != nil {
			return
		}
		origin = fmt.Sprintf("%s %v", filepath.Base(c03RealFiles[fi]), muts)
		c.Cover("input:real-file")
	case c.K%4 == 0:
		tree = c05SPDX(r)
		origin = "own SPDX generator"
		explicit = formats.SPDX23JSON
		c.Cover("input:own-spdx-generator")
	case c.K%4 == 1:
		ver := []string{"1.3", "1.4", "1.5"}[(c.K/4)%3]
		tree, _ = c05CDX(r, ver)
		origin = "own CycloneDX " + ver + " generator"
		explicit = formats.Format("application/vnd.cyclonedx+json;version=" + ver)
		c.Cover("input:own-cdx-generator-" + ver)
	case c.K%4 == 2:
		doc, _ := gen.SPDXDoc(r, c.K, 8)
		b, err := writeDoc(doc, formats.SPDX23JSON, 2)
		if err != nil {
			return
		}
		tree, _ = jsonx.Parse(b)
		origin = "writer output SPDX"
		explicit = formats.SPDX23JSON
		c.Cover("input:writer-spdx")
	default:
		ver := 14 + (c.K/4)%2
		doc, _, _ := gen.CDXTree(r, c.K, ver, 8)
		f := formats.CDX14JSON
		if ver == 15 {
			f = formats.CDX15JSON
		}
		b, err := writeDoc(doc, f, 2)
		if err != nil {
			return
		}
		tree, _ = jsonx.Parse(b)
		origin = "writer output CycloneDX"
		explicit = f
		c.Cover("input:writer-cdx")
	}
	if tree == nil {
		return
	}
	isSPDX := tree.Get("spdxVersion") != nil
	if isSPDX {
		markRawSPDX(tree, "")
		resolves = spdxRefsResolve(tree)
	}
	collectRefs(tree, inputRefs)
	raw = jsonx.Encode(tree, jsonx.EncOpts{Indent: 1})
	det := map[string]any{"origin": origin}
	if len(raw) < 6000 {
		det["input"] = string(raw)
	}
	var base *sbom.Document
	var err error
	if guard(c, "parse", det, func() { base, err = parseAuto(raw) }) {
		return
	}
	c.Evals(1)
	if err != nil {
		c.Cover("input-rejected")
		if strings.HasPrefix(origin, "own") || strings.HasPrefix(origin, "writer") {
			c.Violatef("schema-valid-input-rejected:"+strings.Fields(origin)[1], det, "a schema-valid input (%s) was rejected: %v", origin, err)
		}
		return
	}
	if len(base.NodeList.Nodes) >= 2 {
		c.DistinctBytes(raw)
		if c.WantSample() && len(raw) < 3000 {
			c.Sample(map[string]any{"origin": origin, "graph": gen.Canon(base.NodeList)})
		}
	}
	// ---- every element of the input becomes a node: one per distinct identifier, one per element without identifier
	if want, ok := expectedNodeCount(tree); ok {
		c.Cover("node-count-checked")
		if len(base.NodeList.Nodes) != want {
			c.Violatef("element-lost-or-generated-id-collision", det, "the input has %d distinct elements (distinct identifiers plus elements without identifier) but the parsed graph has %d nodes (%s)", want, len(base.NodeList.Nodes), origin)
			return
		}
	}
	// ---- invariant monitor on the parsed graph
	if resolves {
		c.Cover("closure-checked")
		ids := map[string]int{}
		for _, n := range base.NodeList.Nodes {
			if n.Id == "" {
				c.Violatef("empty-node-id", det, "parsed graph has a node with an empty identifier (%s)", origin)
				return
			}
			ids[n.Id]++
		}
		for id, cnt := range ids {
			if cnt > 1 && inputRefs[id] < 2 {
				c.Violatef("duplicate-node-id", det, "identifier %q occurs %d times in the parsed graph but %d time(s) in the input (%s)", id, cnt, inputRefs[id], origin)
				return
			}
			if isAutoID(id) {
				c.Cover("generated-ids-seen")
				if !idSafeRe.MatchString(id) {
					c.Violatef("generated-id-alphabet", det, "generated identifier %q is not over [A-Za-z0-9.-]", id)
					return
				}
				if cnt > 1 {
					c.Violatef("generated-id-collision", det, "generated identifier %q was given to %d nodes", id, cnt)
					return
				}
			}
		}
		for _, e := range base.NodeList.Edges {
			if ids[e.From] == 0 {
				c.Violatef("dangling-edge-source", det, "edge source %q names no parsed node (%s)", e.From, origin)
				return
			}
			for _, t := range e.To {
				if ids[t] == 0 {
					c.Violatef("dangling-edge-target", det, "edge %q -%s-> %q: the target names no parsed node (%s)", e.From, e.Type, t, origin)
					return
				}
			}
		}
		for _, rt := range base.NodeList.RootElements {
			if ids[rt] == 0 {
				c.Violatef("dangling-root", det, "root element %q names no parsed node (%s)", rt, origin)
				return
			}
		}
	} else {
		c.Cover("closure-not-judged(input references do not resolve)")
	}
	// ---- determinism: same bytes twice, explicit format
	var again *sbom.Document
	if guard(c, "parse", det, func() { again, err = parseAuto(raw) }) {
		return
	}
	c.Evals(1)
	if why := graphEquivalent(base, again); err != nil || why != "" {
		c.Violatef("nondeterministic-parse", det, "parsing the same bytes twice gave different graphs: %v %s", err, why)
		return
	}
	if explicit != "" {
		var ex *sbom.Document
		if guard(c, "parse-explicit", det, func() { ex, err = parseAs(raw, explicit) }) {
			return
		}
		c.Evals(1)
		if why := graphEquivalent(base, ex); err != nil || why != "" {
			c.Violatef("auto-vs-explicit", det, "auto-detected parse differs from ParseStreamWithOptions(%s): %v %s", explicit, err, why)
			return
		}
	}
	// ---- layout independence
	type layout struct {
		name string
		o    jsonx.EncOpts
	}
	lr := rand.New(rand.NewSource(r.Int63()))
	layouts := []layout{
		{"compact", jsonx.EncOpts{Indent: -1}}, {"indent0", jsonx.EncOpts{Indent: 0}}, {"indent4", jsonx.EncOpts{Indent: 4}}, {"indent11", jsonx.EncOpts{Indent: 11}},
		{"random-ws-1", jsonx.EncOpts{Indent: -1, RandWS: true, R: lr}}, {"random-ws-2", jsonx.EncOpts{Indent: -1, RandWS: true, R: lr}},
		{"shuffle-1", jsonx.EncOpts{Indent: 1, Shuffle: true, R: lr}}, {"shuffle-2", jsonx.EncOpts{Indent: -1, Shuffle: true, RandWS: true, R: lr}},
		{"escape-unicode", jsonx.EncOpts{Indent: 1, Esc: jsonx.EscUnicode, KeepRaw: true, EscKeys: true}},
		{"escape-first-letter", jsonx.EncOpts{Indent: 1, Esc: jsonx.EscAllFirst, KeepRaw: true, EscKeys: true}},
		{"escape-solidus", jsonx.EncOpts{Indent: 1, Esc: jsonx.EscSolidus, KeepRaw: true}},
	}
	if c.Thorough() {
		layouts = append(layouts, layout{"shuffle-3", jsonx.EncOpts{Indent: 2, Shuffle: true, R: lr}}, layout{"random-ws-3", jsonx.EncOpts{Indent: -1, RandWS: true, R: lr}},
			layout{"escape-unicode+shuffle", jsonx.EncOpts{Indent: -1, Esc: jsonx.EscUnicode, KeepRaw: true, Shuffle: true, R: lr}})
	}
	for _, l := range layouts {
		b := jsonx.Encode(tree, l.o)
		var d *sbom.Document
		if guard(c, "parse-layout", det, func() { d, err = parseAuto(b) }) {
			return
		}
		c.Evals(1)
		c.Cover("layout:" + l.name)
		if err != nil {
			c.Violatef("layout-rejected:"+l.name, det, "the %s re-encoding of an accepted input is rejected: %v", l.name, err)
			return
		}
		if why := graphEquivalent(base, d); why != "" {
			c.Violatef("layout-dependent:"+l.name, det, "the %s re-encoding of the same JSON value parses differently: %s (%s)", l.name, why, origin)
			return
		}
	}
	// ---- full escape mode on SPDX (raw-bytes positions included): confirms / classifies the known finding
	if isSPDX {
		for _, l := range []layout{{"escape-first-letter(raw positions too)", jsonx.EncOpts{Indent: 1, Esc: jsonx.EscAllFirst}}, {"escape-unicode(raw positions too)", jsonx.EncOpts{Indent: 1, Esc: jsonx.EscUnicode}}} {
			b := jsonx.Encode(tree, l.o)
			var d *sbom.Document
			if guard(c, "parse-layout", det, func() { d, err = parseAuto(b) }) {
				return
			}
			c.Evals(1)
			if why := graphEquivalent(base, d); err != nil || why != "" {
				// the same escape mode with the raw positions left alone was equivalent (checked above), so the
				// difference is caused by the raw-bytes positions only
				c.Violatef("spdx-raw-string-escape", det, "SPDX input whose identifiers/actors are written with JSON escapes parses differently (%v %s)", err, why)
			}
		}
	}
}

// c05Ident: the public identifier generator.
func c05Ident(c *core.C) {
	r := c.R
	for i := 0; i < 4; i++ {
		n := r.Intn(4)
		var args []string
		for j := 0; j < n; j++ {
			switch r.Intn(5) {
			case 0:
				args = append(args, gen.Pick(r, []string{"auto", "node"}))
			case 1:
				args = append(args, "")
			default:
				args = append(args, gen.TextAny(r, 12))
			}
		}
		usable := false
		for _, a := range args {
			if (a == "auto" || a == "node") && !usable {
				continue
			}
			if a != "" {
				usable = true
			}
		}
		var outs []string
		for rep := 0; rep < 3; rep++ {
			var id string
			if guard(c, "NewNodeIdentifier", args, func() { id = sbom.NewNodeIdentifier(args...) }) {
				return
			}
			c.Evals(1)
			if id == "" || !idSafeRe.MatchString(id) {
				c.Violatef("identifier-alphabet", args, "NewNodeIdentifier(%q) = %q: empty or outside [A-Za-z0-9.-]", args, id)
				return
			}
			outs = append(outs, id)
		}
		if usable {
			c.Cover("identifier-usable-seeds")
			if outs[0] != outs[1] || outs[1] != outs[2] {
				c.Violatef("identifier-nondeterministic", args, "NewNodeIdentifier(%q) gave %q for the same usable seed", args, outs)
				return
			}
		} else {
			c.Cover("identifier-no-usable-seed")
		}
	}
}

// expectedNodeCount: for CycloneDX, distinct non-empty bom-refs plus components without bom-ref
// (metadata.component and components[] recursively); for SPDX, the entries of packages[] and files[].
func expectedNodeCount(tree *jsonx.Value) (int, bool) {
	if tree.Get("bomFormat") != nil {
		refs := gen.Set{}
		anon := 0
		var walk func(c *jsonx.Value)
		walk = func(c *jsonx.Value) {
			if c == nil || c.Kind != jsonx.Object {
				return
			}
			if br := c.Get("bom-ref"); br != nil && br.Kind == jsonx.String && br.Str != "" {
				refs.Add(br.Str)
			} else {
				anon++
			}
			if sub := c.Get("components"); sub != nil && sub.Kind == jsonx.Array {
				for _, e := range sub.Elems {
					walk(e)
				}
			}
		}
		if md := tree.Get("metadata"); md != nil && md.Kind == jsonx.Object {
			if mc := md.Get("component"); mc != nil && mc.Kind == jsonx.Object {
				walk(mc)
			}
		}
		if cs := tree.Get("components"); cs != nil && cs.Kind == jsonx.Array {
			for _, e := range cs.Elems {
				walk(e)
			}
		}
		return len(refs) + anon, true
	}
	if tree.Get("spdxVersion") != nil {
		n := 0
		for _, k := range []string{"packages", "files"} {
			if a := tree.Get(k); a != nil && a.Kind == jsonx.Array {
				for _, e := range a.Elems {
					if e.Kind == jsonx.Object {
						n++
					}
				}
			}
		}
		return n, true
	}
	return 0, false
}
