package props

import (
	"fmt"
	"math/rand"
	"sort"

	"github.com/protobom/protobom/pkg/sbom"
	"google.golang.org/protobuf/encoding/prototext"
	"google.golang.org/protobuf/proto"
	"google.golang.org/protobuf/reflect/protoreflect"
	"verifharness/internal/core"
	"verifharness/internal/gen"
)

// Reflection helpers shared by the attribute-level oracles (C09, C10, C12, C13, C14).

var nodeFields = func() []protoreflect.FieldDescriptor {
	fds := (&sbom.Node{}).ProtoReflect().Descriptor().Fields()
	out := []protoreflect.FieldDescriptor{}
	for i := 0; i < fds.Len(); i++ {
		out = append(out, fds.Get(i))
	}
	return out
}()

// attrFields: all node fields except id and type (the repository's tests declare those immutable under Update/Augment).
func attrFields() []protoreflect.FieldDescriptor {
	out := []protoreflect.FieldDescriptor{}
	for _, fd := range nodeFields {
		if fd.Name() == "id" || fd.Name() == "type" {
			continue
		}
		out = append(out, fd)
	}
	return out
}

func fieldEmpty(m protoreflect.Message, fd protoreflect.FieldDescriptor) bool {
	switch {
	case fd.IsList():
		return m.Get(fd).List().Len() == 0
	case fd.IsMap():
		return m.Get(fd).Map().Len() == 0
	default:
		return !m.Has(fd)
	}
}

var detMarshal = proto.MarshalOptions{Deterministic: true}

func mustDet(m proto.Message) []byte {
	b, _ := detMarshal.Marshal(m)
	h := core.Hash64(b)
	return []byte{byte(h), byte(h >> 8), byte(h >> 16)}
}

func canonValue(fd protoreflect.FieldDescriptor, v protoreflect.Value) string {
	if fd.Kind() == protoreflect.MessageKind || fd.Kind() == protoreflect.GroupKind {
		return prototext.MarshalOptions{Multiline: false}.Format(v.Message().Interface()) + fmt.Sprintf("#%x", mustDet(v.Message().Interface()))
	}
	return fmt.Sprint(v.Interface())
}

// fieldCanon renders a field's content; lists as sorted multisets (set-valued attributes), maps by sorted key.
func fieldCanon(m protoreflect.Message, fd protoreflect.FieldDescriptor, ordered bool) string {
	switch {
	case fd.IsList():
		l := m.Get(fd).List()
		xs := make([]string, l.Len())
		for i := range xs {
			xs[i] = canonValue(fd, l.Get(i))
		}
		if !ordered {
			sort.Strings(xs)
		}
		return fmt.Sprintf("%q", xs)
	case fd.IsMap():
		mp := m.Get(fd).Map()
		xs := []string{}
		mp.Range(func(k protoreflect.MapKey, v protoreflect.Value) bool {
			xs = append(xs, fmt.Sprintf("%v=%q", k.Interface(), canonValue(fd.MapValue(), v)))
			return true
		})
		sort.Strings(xs)
		return fmt.Sprintf("%q", xs)
	default:
		if !m.Has(fd) {
			return "<unset>"
		}
		return canonValue(fd, m.Get(fd))
	}
}

func fieldSame(a, b protoreflect.Message, fd protoreflect.FieldDescriptor) bool {
	return fieldCanon(a, fd, false) == fieldCanon(b, fd, false)
}

// precedenceCheck verifies, for every attribute, got == (winner's value if non-empty else loser's).
// It returns a description of the first mismatch or "".
func precedenceCheck(got, winner, loser *sbom.Node) (string, string) {
	g, w, l := got.ProtoReflect(), winner.ProtoReflect(), loser.ProtoReflect()
	for _, fd := range attrFields() {
		want := w
		if fieldEmpty(w, fd) {
			want = l
		}
		if !fieldSame(g, want, fd) {
			return string(fd.Name()), fmt.Sprintf("attribute %s = %s, want %s (winner has %s, other has %s)", fd.Name(), fieldCanon(g, fd, false), fieldCanon(want, fd, false), fieldCanon(w, fd, false), fieldCanon(l, fd, false))
		}
	}
	if got.Id != winner.Id {
		return "id", "id changed"
	}
	return "", ""
}

// kindCheck judges the node kind of a merged node where the statement's rule (winner's value when non-empty, i.e.
// not PACKAGE=0, else the other's) and the behaviour the repository's own tests pin (the node already in the list,
// base, keeps its kind) give the same answer; elsewhere the kind is not judged.
func kindCheck(got, winner, loser, base *sbom.Node) string {
	literal := winner.Type
	if literal == 0 {
		literal = loser.Type
	}
	if literal != base.Type {
		return ""
	}
	if got.Type != literal {
		return fmt.Sprintf("node kind = %s, want %s (winner has %s, other has %s)", got.Type, literal, winner.Type, loser.Type)
	}
	return ""
}

// attrNodeMaker populates every attribute independently with probability 1/2.
func attrNodeMaker(r *rand.Rand, id string) *sbom.Node {
	o := gen.DefaultPop()
	o.PFill = 0.5
	n := gen.Node(r, id, o)
	return n
}

func nodeByID(nl *sbom.NodeList, id string) *sbom.Node {
	for _, n := range nl.Nodes {
		if n.Id == id {
			return n
		}
	}
	return nil
}
