package props

import (
	"bytes"
	"crypto/sha256"
	"fmt"
	"io"
	"math/rand"
	"os"
	"os/exec"
	"path/filepath"
	"regexp"
	"runtime"
	"sort"
	"strings"
	"sync"
	"sync/atomic"
	"time"

	"github.com/anishathalye/porcupine"
	"github.com/protobom/protobom/pkg/formats"
	"github.com/protobom/protobom/pkg/native"
	"github.com/protobom/protobom/pkg/reader"
	"github.com/protobom/protobom/pkg/sbom"
	"github.com/protobom/protobom/pkg/verifhook"
	"github.com/protobom/protobom/pkg/writer"
	"verifharness/internal/core"
	"verifharness/internal/gen"
)

// C17 — registries, detection, parsing and writing under concurrency:
// race detector (race build), abort monitor (supervised children), sequential oracle per call, linearizability of the registries.

type fakeUnser struct{ id int }

func (f *fakeUnser) Unserialize(io.Reader, *native.UnserializeOptions, interface{}) (*sbom.Document, error) {
	return sbom.NewDocument(), nil
}

type fakeSer struct{ id int }

type fakeNative struct{ by int }

func (f *fakeSer) Serialize(*sbom.Document, *native.SerializeOptions, interface{}) (interface{}, error) {
	runtime.Gosched() // a legitimate preemption point between the two halves of a write
	return &fakeNative{by: f.id}, nil
}

// Render reports which driver serialized the native document it is handed.
func (f *fakeSer) Render(doc interface{}, w io.Writer, _ *native.RenderOptions, _ interface{}) error {
	n, ok := doc.(*fakeNative)
	if !ok {
		_, _ = fmt.Fprintf(w, "FOREIGN-NATIVE-DOCUMENT rendered by %d", f.id)
		return nil
	}
	_, _ = fmt.Fprintf(w, "serialized-by-%d rendered-by-%d", n.by, f.id)
	return nil
}

// ---- hook event log: global logical clock, fixed ring, lock-free

type hookLog struct {
	n   int64
	buf [1 << 14]uint8
}

var c17Points = []string{
	"reader.GetFormatUnserializer:between-check-and-fetch", "reader.New:before-options", "writer.New:before-options",
	"formats.SniffReader:line-loop", "formats.spdxSniff:between-get-and-set-state",
}

func (h *hookLog) handler(yieldSeed int64) func(string) {
	var ctr int64
	return func(p string) {
		idx := uint8(255)
		for i, s := range c17Points {
			if s == p {
				idx = uint8(i)
			}
		}
		k := atomic.AddInt64(&h.n, 1)
		if int(k) < len(h.buf) {
			h.buf[k] = idx
		}
		// yield where the code may legitimately be preempted
		c := atomic.AddInt64(&ctr, 1)
		if (c*2654435761+yieldSeed)%7 == 0 {
			time.Sleep(time.Duration(50+((c*40503+yieldSeed)%400)) * time.Microsecond)
		} else {
			runtime.Gosched()
		}
	}
}

func (h *hookLog) signature() (string, map[int]int) {
	n := int(atomic.LoadInt64(&h.n))
	if n >= len(h.buf) {
		n = len(h.buf) - 1
	}
	counts := map[int]int{}
	for i := 1; i <= n; i++ {
		counts[int(h.buf[i])]++
	}
	s := sha256.Sum256(h.buf[1 : n+1])
	return fmt.Sprintf("%x", s[:8]), counts
}

// ---- the calls whose concurrent results are compared with their sequential results

type c17Call struct {
	name string
	fn   func() string
}

func digestDoc(d *sbom.Document, err error) string {
	if err != nil {
		return "error"
	}
	md := gen.Clone(d.Metadata)
	md.Id, md.Date = "", nil
	// canonical: nodes by id, triples, roots
	var ns []string
	for _, n := range d.NodeList.Nodes {
		b, _ := detMarshal.Marshal(n)
		ns = append(ns, string(b))
	}
	sort.Strings(ns)
	mb, _ := detMarshal.Marshal(md)
	h := sha256.Sum256([]byte(fmt.Sprint(ns, gen.TripleSet(d.NodeList).Keys(), gen.RootSet(d.NodeList).Keys(), string(mb))))
	return fmt.Sprintf("doc:%x", h[:8])
}

func normOut(b []byte, err error) string {
	if err != nil {
		return "error"
	}
	n, nerr := c07Normalise(b)
	if nerr != nil {
		return "not-json"
	}
	h := sha256.Sum256([]byte(n))
	return fmt.Sprintf("out:%x", h[:8])
}

var c17Fresh int64

func c17Calls(r *rand.Rand, dir string) []c17Call {
	var calls []c17Call
	spdxDoc, _ := gen.SPDXDoc(r, r.Intn(1000), 6)
	cdxDoc, _, _ := gen.CDXTree(r, r.Intn(1000), 15, 6)
	// two further SPDX documents that differ in everything that ends up in the document header (tools, authors,
	// name, comment): overlapping writes must not mix them
	hdrDocs := []*sbom.Document{}
	for i := 0; i < 2; i++ {
		d, _ := gen.SPDXDoc(r, r.Intn(1000), 4)
		d.Metadata.Name = fmt.Sprintf("header-doc-%d", i)
		d.Metadata.Comment = fmt.Sprintf("comment-of-%d", i)
		d.Metadata.Tools = []*sbom.Tool{{Name: fmt.Sprintf("tool-a-of-%d", i), Version: "1"}, {Name: fmt.Sprintf("tool-b-of-%d", i), Version: "2"}}
		d.Metadata.Authors = []*sbom.Person{{Name: fmt.Sprintf("author-of-%d", i)}}
		hdrDocs = append(hdrDocs, d)
	}
	spdxBytes, _ := writeDoc(spdxDoc, formats.SPDX23JSON, 2)
	cdxBytes, _ := writeDoc(cdxDoc, formats.CDX15JSON, 2)
	tv23 := []byte("SPDXVersion: SPDX-2.3\nDataLicense: CC0-1.0\nSPDXID: SPDXRef-DOCUMENT\nDocumentName: x\n" + strings.Repeat("PackageName: p\n", 20))
	tv22 := []byte(strings.Repeat("# comment line\n", 12) + "SPDXVersion: SPDX-2.2\nDataLicense: CC0-1.0\n")
	tvNone := []byte(strings.Repeat("DataLicense: CC0-1.0\nPackageName: p\n", 15))
	garbage := []byte(strings.Repeat("not an sbom\n", 10))
	for name, in := range map[string][]byte{"sniff-spdx-json": spdxBytes, "sniff-cdx-json": cdxBytes, "sniff-tagvalue-2.3": tv23, "sniff-tagvalue-2.2": tv22, "sniff-tagvalue-none": tvNone, "sniff-garbage": garbage} {
		in := in
		calls = append(calls, c17Call{name, func() string {
			f, err := (&formats.Sniffer{}).SniffReader(bytes.NewReader(in))
			if err != nil {
				return "error"
			}
			return string(f)
		}})
	}
	for name, in := range map[string][]byte{"parse-spdx": spdxBytes, "parse-cdx": cdxBytes, "parse-garbage": garbage} {
		in := in
		calls = append(calls, c17Call{name, func() string { return digestDoc(reader.New().ParseStream(bytes.NewReader(in))) }})
	}
	// schema-valid-looking documents with values the parsers have to reject or repair field by field (malformed
	// dates, each call its own spellings): whatever a parser remembers about such values is shared between parses
	for i := 0; i < 4; i++ {
		bad := []string{"2023-11-15", "15/11/2023 20:34", "yesterday", "2023-13-45T99:99:99Z", "", "20231115T203458Z", "2023-11-15T20:34:58", "1700080498"}
		in := gen.RepDocs[0].JSON
		for _, d := range gen.RepDocs {
			if strings.Contains(d.JSON, "releaseDate") {
				in = d.JSON
			}
		}
		tmpl, i := in, i
		calls = append(calls, c17Call{fmt.Sprintf("parse-spdx-with-malformed-dates-%d", i), func() string {
			// every call spells its malformed values differently (a value a parser has not met before)
			doc, n := tmpl, atomic.AddInt64(&c17Fresh, 1)
			for j, good := range []string{"2023-11-15T20:34:58Z", "2023-11-14T20:34:58Z", "2024-11-15T20:34:58Z"} {
				doc = strings.ReplaceAll(doc, good, fmt.Sprintf("%s#%d.%d", bad[(2*i+j)%len(bad)], j, n))
			}
			return digestDoc(reader.New().ParseStream(strings.NewReader(doc)))
		}})
	}
	// SPDX documents without a namespace: the reader generates their identifier; overlapping parses must neither
	// disturb each other nor hand two documents the same generated identifier
	{
		in := gen.RepDocs[0].JSON
		for _, d := range gen.RepDocs {
			if strings.Contains(d.JSON, "documentNamespace") {
				in = d.JSON
			}
		}
		noNS := regexp.MustCompile(`\s*"documentNamespace"\s*:\s*"[^"]*"\s*,`).ReplaceAllString(in, "")
		if noNS != in {
			var ids sync.Map
			calls = append(calls, c17Call{"parse-spdx-without-namespace", func() string {
				d, err := reader.New().ParseStream(strings.NewReader(noNS))
				if err == nil && d != nil && d.Metadata != nil && d.Metadata.Id != "" {
					if _, dup := ids.LoadOrStore(d.Metadata.Id, true); dup {
						return "DUPLICATE-GENERATED-ID " + d.Metadata.Id
					}
				}
				return digestDoc(d, err)
			}})
		}
	}
	calls = append(calls, c17Call{"parse-with-reader-options", func() string {
		rd := reader.New(reader.WithFormatOptions("k", 1), reader.WithUnserializeOptions(&native.UnserializeOptions{}))
		return digestDoc(rd.ParseStream(bytes.NewReader(cdxBytes)))
	}})
	for _, f := range []formats.Format{formats.SPDX23JSON, formats.CDX14JSON, formats.CDX15JSON} {
		f := f
		doc := spdxDoc
		if f != formats.SPDX23JSON {
			doc = cdxDoc
		}
		// independent documents: every call works on its own copy
		calls = append(calls, c17Call{"write-withformat:" + string(f), func() string {
			var buf bytes.Buffer
			w := writer.New(writer.WithFormat(f), writer.WithRenderOptions(&native.RenderOptions{Indent: 2}))
			err := w.WriteStream(gen.Clone(doc), nopWC{&buf})
			if err == nil {
				// a writer built WithFormat(F) must emit F
				if got, _, _ := sniffTracked(buf.Bytes()); got != f {
					return "WRONG-FORMAT:" + string(got)
				}
			}
			return normOut(buf.Bytes(), err)
		}})
	}
	for i, d := range hdrDocs {
		i, d := i, d
		for _, f := range []formats.Format{formats.SPDX23JSON, formats.CDX15JSON} {
			f := f
			calls = append(calls, c17Call{fmt.Sprintf("write-header-doc-%d:%s", i, f), func() string {
				var buf bytes.Buffer
				w := writer.New(writer.WithFormat(f))
				err := w.WriteStream(gen.Clone(d), nopWC{&buf})
				// the other document's header texts must not appear in this one's output
				other := fmt.Sprintf("-of-%d", 1-i)
				if err == nil && bytes.Contains(buf.Bytes(), []byte(other)) {
					return "FOREIGN-HEADER-TEXT"
				}
				return normOut(buf.Bytes(), err)
			}})
		}
	}
	// writes to files: every call writes its own document to its own path, all paths in ONE directory, and reads the
	// file back; parses of one input file shared by all
	if dir != "" {
		var fileNo int64
		for _, f := range []formats.Format{formats.SPDX23JSON, formats.CDX15JSON} {
			f := f
			doc := spdxDoc
			if f != formats.SPDX23JSON {
				doc = cdxDoc
			}
			calls = append(calls, c17Call{"write-file:" + string(f), func() string {
				path := filepath.Join(dir, fmt.Sprintf("out-%d.json", atomic.AddInt64(&fileNo, 1)))
				err := writer.New(writer.WithFormat(f), writer.WithRenderOptions(&native.RenderOptions{Indent: 2})).WriteFile(gen.Clone(doc), path)
				b, rerr := os.ReadFile(path)
				_ = os.Remove(path)
				if err == nil && rerr != nil {
					return "FILE-NOT-THERE-AFTER-SUCCESS"
				}
				return normOut(b, err)
			}})
		}
		// detection on files: two files with the same base name in different directories, one of them large with its
		// declaration at the very end (its detection is in flight for long), the other small and of another format
		da, db := filepath.Join(dir, "a"), filepath.Join(dir, "b")
		if os.MkdirAll(da, 0o755) == nil && os.MkdirAll(db, 0o755) == nil {
			big := "{\n\"components\": [\n" + strings.Repeat("{\"type\": \"library\", \"name\": \"x\"},\n", 30000) + "{\"type\": \"library\", \"name\": \"y\"}\n],\n\"version\": 1,\n\"bomFormat\": \"CycloneDX\",\n\"specVersion\": \"1.5\"\n}\n"
			pa, pb := filepath.Join(da, "sbom.json"), filepath.Join(db, "sbom.json")
			if os.WriteFile(pa, []byte(big), 0o644) == nil && os.WriteFile(pb, spdxBytes, 0o644) == nil {
				for name, p := range map[string]string{"sniff-file:large-cdx-late-declaration": pa, "sniff-file:small-spdx-same-base-name": pb} {
					p := p
					calls = append(calls, c17Call{name, func() string {
						f, err := (&formats.Sniffer{}).SniffFile(p)
						if err != nil {
							return "error"
						}
						return string(f)
					}})
				}
			}
		}
		inPath := filepath.Join(dir, "in-spdx.json")
		if os.WriteFile(inPath, spdxBytes, 0o644) == nil {
			calls = append(calls, c17Call{"parse-file", func() string { return digestDoc(reader.New().ParseFile(inPath)) }})
		}
	}
	// SPDX writes that differ in their render options: each must come out with its own indentation
	for _, ind := range []int{0, 1, 3, 7} {
		ind := ind
		calls = append(calls, c17Call{fmt.Sprintf("write-spdx-indent-%d", ind), func() string {
			var buf bytes.Buffer
			w := writer.New(writer.WithFormat(formats.SPDX23JSON), writer.WithRenderOptions(&native.RenderOptions{Indent: ind}))
			err := w.WriteStream(gen.Clone(spdxDoc), nopWC{&buf})
			_, got := c18Measure(buf.Bytes())
			return fmt.Sprintf("indent=%d;%s", got, normOut(buf.Bytes(), err))
		}})
	}
	// one writer and one reader shared by all goroutines (instances are read-only while in use)
	sharedW := writer.New(writer.WithFormat(formats.CDX15JSON))
	sharedR := reader.New(reader.WithFormatOptions("shared", 1))
	calls = append(calls, c17Call{"write-shared-writer", func() string {
		var buf bytes.Buffer
		err := sharedW.WriteStream(gen.Clone(cdxDoc), nopWC{&buf})
		if err == nil {
			if got, _, _ := sniffTracked(buf.Bytes()); got != formats.CDX15JSON {
				return "WRONG-FORMAT:" + string(got)
			}
		}
		return normOut(buf.Bytes(), err)
	}})
	calls = append(calls, c17Call{"parse-shared-reader", func() string { return digestDoc(sharedR.ParseStream(bytes.NewReader(spdxBytes))) }})
	calls = append(calls, c17Call{"write-default-writer-no-format", func() string {
		var buf bytes.Buffer
		err := writer.New().WriteStream(gen.Clone(spdxDoc), nopWC{&buf})
		if err == nil {
			got, _, _ := sniffTracked(buf.Bytes())
			return "UNEXPECTED-OUTPUT:" + string(got)
		}
		return "error"
	}})
	sort.Slice(calls, func(i, j int) bool { return calls[i].name < calls[j].name })
	return calls
}

// ---- registry histories

type regIn struct {
	Op  string // reg | unreg | get
	Key string
	ID  int
}

var regModel = porcupine.Model{
	Partition: func(history []porcupine.Operation) [][]porcupine.Operation {
		m := map[string][]porcupine.Operation{}
		var keys []string
		for _, op := range history {
			k := op.Input.(regIn).Key
			if _, ok := m[k]; !ok {
				keys = append(keys, k)
			}
			m[k] = append(m[k], op)
		}
		var out [][]porcupine.Operation
		for _, k := range keys {
			out = append(out, m[k])
		}
		return out
	},
	Init: func() interface{} { return 0 },
	Step: func(state, input, output interface{}) (bool, interface{}) {
		in := input.(regIn)
		switch in.Op {
		case "reg":
			return true, in.ID
		case "unreg":
			return true, 0
		default:
			return output.(int) == state.(int), state
		}
	},
	Equal: func(a, b interface{}) bool { return a.(int) == b.(int) },
	DescribeOperation: func(in, out interface{}) string {
		i := in.(regIn)
		return fmt.Sprintf("%s(%s,%d)->%v", i.Op, i.Key, i.ID, out)
	},
}

// runRegistryHistory drives the unserializer or serializer registry from several clients and returns the recorded operations.
func runRegistryHistory(r *rand.Rand, which string, clients, opsPerClient int, clock *int64) []porcupine.Operation {
	keys := []formats.Format{"application/x-verif-scratch;k=1", "application/x-verif-scratch;k=2", "application/x-verif-scratch;k=3"}[:2+r.Intn(2)]
	for _, k := range keys { // known initial state: absent
		if which == "reader" {
			reader.UnregisterUnserializer(k)
		} else {
			writer.UnregisterSerializer(k)
		}
	}
	var mu sync.Mutex
	var ops []porcupine.Operation
	var wg sync.WaitGroup
	var nextID int64
	start := make(chan struct{})
	for cl := 0; cl < clients; cl++ {
		wg.Add(1)
		rr := rand.New(rand.NewSource(r.Int63()))
		go func(cl int, rr *rand.Rand) {
			defer wg.Done()
			<-start
			local := make([]porcupine.Operation, 0, opsPerClient)
			for i := 0; i < opsPerClient; i++ {
				key := keys[rr.Intn(len(keys))]
				in := regIn{Key: string(key)}
				var out int
				switch rr.Intn(5) {
				case 0, 1:
					in.Op, in.ID = "reg", int(atomic.AddInt64(&nextID, 1))
				case 2:
					in.Op = "unreg"
				default:
					in.Op = "get"
				}
				t0 := atomic.AddInt64(clock, 1)
				switch in.Op {
				case "reg":
					if which == "reader" {
						reader.RegisterUnserializer(key, &fakeUnser{in.ID})
					} else {
						writer.RegisterSerializer(key, &fakeSer{in.ID})
					}
				case "unreg":
					if which == "reader" {
						reader.UnregisterUnserializer(key)
					} else {
						writer.UnregisterSerializer(key)
					}
				case "get":
					if which == "reader" {
						u, err := reader.GetFormatUnserializer(key)
						switch {
						case err != nil && u == nil:
							out = 0
						case err == nil && u != nil:
							if fu, ok := u.(*fakeUnser); ok {
								out = fu.id
							} else {
								out = -2
							}
						default:
							out = -1 // (nil, nil) or both set: no sequential execution returns this
						}
					} else {
						s, err := writer.GetFormatSerializer(key)
						switch {
						case err != nil && s == nil:
							out = 0
						case err == nil && s != nil:
							if fs, ok := s.(*fakeSer); ok {
								out = fs.id
							} else {
								out = -2
							}
						default:
							out = -1
						}
					}
				}
				t1 := atomic.AddInt64(clock, 1)
				local = append(local, porcupine.Operation{ClientId: cl, Input: in, Call: t0, Output: out, Return: t1})
			}
			mu.Lock()
			ops = append(ops, local...)
			mu.Unlock()
		}(cl, rr)
	}
	close(start)
	wg.Wait()
	return ops
}

func c17Rounds(tier string) int {
	if tier == "thorough" {
		return 4000
	}
	return 240
}

func init() {
	core.Register(&core.Prop{
		ID: "C17", Level: "exploration",
		Rule: "each round runs in a fresh process (library defaults; every second round begins with a cold start: the process's very first calls into the reader, writer and formats packages - lookups, registrations, writes, parses - come from 12 goroutines released together (all making the same first call, or mixed), five fresh child processes per round) with the verif yield points installed (Gosched or a seeded sub-millisecond sleep at the five interleaving windows; the hook order is logged on a global logical clock): " +
			"(a) every call of a fixed call set (sniff JSON / tag-value / garbage inputs; parse SPDX, CycloneDX and garbage; parse with reader options; write independent documents through writers built WithFormat(F) for 3 formats; write documents to files of their own in one shared directory and read them back, parse one shared input file, detect the format of two files with one base name in two directories (a large one declaring its format at the end, a small one of another format); one writer and one reader shared by all goroutines; default writer) is executed once sequentially, " +
			"then G in {4,16,64} goroutines execute the calls concurrently while other goroutines churn both format registries on scratch keys; every concurrent result must equal the sequential one and a writer built WithFormat(F) must emit F; " +
			"(a') 600 writes in a scratch format whose driver is being replaced concurrently by two distinguishable fake drivers: each write must be serialized and rendered by the same driver; " +
			"(b) six registry histories each (2-4 clients, 120..2400 operations on 2-3 contended scratch keys, call/return stamps from one atomic clock) are recorded for the unserializer and the serializer registry and checked for linearizability against a per-key register with porcupine (timeout = inconclusive). " +
			"The same rounds run in a -race build whose GORACE logs are parsed (reports with protobom frames are violations); a runtime abort kills the child and is attributed to the round. " +
			"Writes include SPDX documents with four different indentations (each reporting the indentation it produced) and two documents with distinguishable header texts in both formats. distinct = hash of the hook-event order of the round; non-trivial = round in which hook points were reached.",
		Assumptions: []string{"schedules are sampled; the race detector is happens-before based and reports races on executed accesses whether or not the bad interleaving occurred", "documents written concurrently are independent copies"},
		NCases:      c17Rounds,
		Case:        c17Round,
		RaceNCases: func(tier string) int {
			if tier == "thorough" {
				return 400
			}
			return 32
		},
		RaceCase:        c17Round,
		CasesPerProcess: 1,
		MustCover:       []string{"hook-events", "overlapping-calls", "histories-linearizable"},
		CaseCPU:         120,
	})
}

// c17ColdStart runs the cold-start scenario in fresh child processes (only the first use of a process counts, so one
// process gives one trial): `vcheck coldstart` releases 16 spinning goroutines at once.
func c17ColdStart(c *core.C) bool {
	// the trials run in a separate small binary: this one links the beta SPDX 3 driver, whose init() registers
	// itself with the writer package and thereby initialises it before main starts - a process without a cold start
	self, _ := os.Executable()
	exe := filepath.Join(filepath.Dir(self), "vcold")
	if strings.HasSuffix(self, "-race") {
		exe += "-race"
	}
	if _, err := os.Stat(exe); err != nil {
		c.Violatef("harness-cold-start-binary", nil, "no cold-start binary %s: %v", exe, err)
		return false
	}
	trials := 5
	for t := 0; t < trials; t++ {
		cmd := exec.Command(exe, fmt.Sprint(c.R.Int63()))
		out, err := cmd.CombinedOutput()
		c.Evals(1)
		c.Cover("cold-start-trials(fresh process each)")
		text := strings.TrimSpace(string(out))
		if _, exited := err.(*exec.ExitError); err != nil && !exited {
			c.Violatef("harness-child", nil, "cold-start child not started: %v", err)
			return false
		}
		if err != nil || !strings.HasSuffix(text, "COLD-OK") {
			sig := "cold-start:failed"
			if i := strings.Index(text, "COLD-FAIL "); i >= 0 {
				sig = "cold-start:" + strings.SplitN(strings.SplitN(text[i+10:], "|", 2)[0], "(", 2)[0]
			} else if strings.Contains(text, "fatal error") || strings.Contains(text, "panic:") {
				sig = "cold-start:runtime-abort"
			}
			c.Violatef(sig, nil, "first use of the reader/writer packages from 12 goroutines at once (fresh process, trial %d): %s", t, text[max(0, len(text)-600):])
			return false
		}
	}
	return true
}

func c17Round(c *core.C) {
	r := c.R
	hl := &hookLog{}
	verifhook.SetHandler(hl.handler(r.Int63()))
	defer verifhook.SetHandler(nil)

	// (0) cold start: the very first calls into the reader, writer and formats packages of this fresh process come
	// from several goroutines at once (nothing of those packages has run yet, so whatever they set up lazily is set
	// up under contention). Every lookup of a built-in format must succeed and every registration must stick.
	if c.K%2 == 0 && !c17ColdStart(c) {
		return
	}
	dir, derr := scratchBase(c, "c17-", false)
	if derr != nil {
		c.Violatef("harness-no-scratch-directory", nil, "cannot create a scratch directory: %v", derr)
		return
	}
	defer os.RemoveAll(dir)
	calls := c17Calls(r, dir)
	// (a) sequential oracle
	expected := make([]string, len(calls))
	for i, cl := range calls {
		var res string
		if guard(c, "sequential:"+cl.name, nil, func() { res = cl.fn() }) {
			return
		}
		expected[i] = res
		if strings.HasPrefix(res, "WRONG-FORMAT") || strings.HasPrefix(res, "UNEXPECTED-OUTPUT") {
			c.Violatef("sequential-wrong-result:"+strings.SplitN(cl.name, ":", 2)[0], nil, "even sequentially %s gave %s", cl.name, res)
			return
		}
	}
	G := []int{4, 16, 64}[c.K%3]
	iters := 240 / G
	var clock int64
	type stamp struct {
		call   int
		t0, t1 int64
		res    string
	}
	logs := make([][]stamp, G)
	var wg sync.WaitGroup
	start := make(chan struct{})
	var stop int32
	// registry churn alongside (scratch keys only)
	for ch := 0; ch < 2; ch++ {
		wg.Add(1)
		rr := rand.New(rand.NewSource(r.Int63()))
		go func(rr *rand.Rand) {
			defer wg.Done()
			<-start
			keys := []formats.Format{"application/x-verif-churn;k=1", "application/x-verif-churn;k=2"}
			for atomic.LoadInt32(&stop) == 0 {
				k := keys[rr.Intn(2)]
				switch rr.Intn(6) {
				case 0:
					reader.RegisterUnserializer(k, &fakeUnser{1})
				case 1:
					reader.UnregisterUnserializer(k)
				case 2:
					_, _ = reader.GetFormatUnserializer(k)
				case 3:
					writer.RegisterSerializer(k, &fakeSer{1})
				case 4:
					writer.UnregisterSerializer(k)
				default:
					_, _ = writer.GetFormatSerializer(k)
				}
				runtime.Gosched()
			}
		}(rr)
	}
	var cwg sync.WaitGroup
	var panicMsg atomic.Value
	for g := 0; g < G; g++ {
		cwg.Add(1)
		rr := rand.New(rand.NewSource(r.Int63()))
		logs[g] = make([]stamp, 0, iters)
		go func(g int, rr *rand.Rand) {
			defer cwg.Done()
			defer func() {
				if rec := recover(); rec != nil {
					panicMsg.Store(fmt.Sprintf("%v", rec))
				}
			}()
			<-start
			for i := 0; i < iters; i++ {
				k := rr.Intn(len(calls))
				t0 := atomic.AddInt64(&clock, 1)
				res := calls[k].fn()
				t1 := atomic.AddInt64(&clock, 1)
				logs[g] = append(logs[g], stamp{k, t0, t1, res})
			}
		}(g, rr)
	}
	close(start)
	cwg.Wait()
	atomic.StoreInt32(&stop, 1)
	wg.Wait()
	if m := panicMsg.Load(); m != nil {
		c.Violatef("panic-in-concurrent-call", nil, "a call panicked under concurrency: %v", m)
		return
	}
	var all []stamp
	for _, l := range logs {
		all = append(all, l...)
	}
	c.Evals(len(all))
	c.Cover(fmt.Sprintf("goroutines:%d", G))
	for _, s := range all {
		if s.res != expected[s.call] {
			c.Violatef("result-differs-from-sequential:"+strings.SplitN(calls[s.call].name, ":", 2)[0], map[string]any{"call": calls[s.call].name, "sequential": expected[s.call], "concurrent": s.res},
				"%s returned %q under concurrency (%d goroutines) but %q sequentially", calls[s.call].name, s.res, G, expected[s.call])
			return
		}
	}
	sort.Slice(all, func(i, j int) bool { return all[i].t0 < all[j].t0 })
	ov := 0
	for i := range all {
		for j := i + 1; j < len(all) && all[j].t0 < all[i].t1; j++ {
			ov++
		}
	}
	c.CoverN("overlapping-calls", ov)

	// (a') writes in a format whose driver is being replaced concurrently: every write must be done entirely by
	// one of the drivers (what some sequential order of Register and Write gives), never serialized by one and rendered by the other
	{
		flip := formats.Format("application/x-verif-flip;version=1")
		writer.RegisterSerializer(flip, &fakeSer{1})
		var fwg sync.WaitGroup
		var stopFlip int32
		fwg.Add(1)
		go func() {
			defer fwg.Done()
			for i := 0; atomic.LoadInt32(&stopFlip) == 0; i++ {
				writer.RegisterSerializer(flip, &fakeSer{1 + i%2})
				runtime.Gosched()
			}
		}()
		var bad atomic.Value
		var wwg sync.WaitGroup
		writes := int64(0)
		for g := 0; g < 4; g++ {
			wwg.Add(1)
			go func() {
				defer wwg.Done()
				defer func() {
					if rec := recover(); rec != nil {
						bad.Store(fmt.Sprintf("panic: %v", rec))
					}
				}()
				w := writer.New(writer.WithFormat(flip))
				for i := 0; i < 150; i++ {
					var buf bytes.Buffer
					err := w.WriteStream(sbom.NewDocument(), nopWC{&buf})
					atomic.AddInt64(&writes, 1)
					out := buf.String()
					if err != nil {
						bad.Store("error: " + err.Error())
					} else if out != "serialized-by-1 rendered-by-1" && out != "serialized-by-2 rendered-by-2" {
						bad.Store(out)
					}
				}
			}()
		}
		wwg.Wait()
		atomic.StoreInt32(&stopFlip, 1)
		fwg.Wait()
		writer.UnregisterSerializer(flip)
		c.Evals(int(writes))
		c.CoverN("writes-overlapping-driver-replacement", int(writes))
		if b := bad.Load(); b != nil {
			c.Violatef("write-not-atomic-wrt-driver-replacement", b, "a write that overlapped RegisterSerializer for its own format was not done by one driver: %v", b)
			return
		}
	}

	// (b) registry histories, linearizability
	for hi := 0; hi < 12; hi++ {
		// six histories per registry and round (client count and length vary): a window between two steps of one
		// lookup is hit by few of them, and many short histories cost the checker less than one long one
		which := []string{"reader", "writer"}[hi%2]
		clients := 2 + r.Intn(3)
		ops := runRegistryHistory(r, which, clients, []int{2400, 600, 120}[(hi/2)%3]/clients, &clock)
		c.Evals(len(ops))
		res, info := porcupine.CheckOperationsVerbose(regModel, ops, 60*time.Second)
		_ = info
		switch res {
		case porcupine.Ok:
			c.Cover("histories-linearizable")
		case porcupine.Unknown:
			c.Cover("histories-checker-timeout(inconclusive)")
			c.Inconclusive("porcupine timed out on a " + which + " registry history")
		case porcupine.Illegal:
			var bad []string
			for _, op := range ops {
				if op.Output.(int) < 0 {
					bad = append(bad, regModel.DescribeOperation(op.Input, op.Output))
				}
			}
			c.Violatef("registry-not-linearizable:"+which, map[string]any{"registry": which, "operations": len(ops), "impossible_returns": bad},
				"the %s registry history (%d operations, %d clients) is not linearizable; returns no sequential execution produces: %v", which, len(ops), clients, bad)
			return
		}
	}
	sig, counts := hl.signature()
	total := 0
	for i, n := range counts {
		total += n
		if i < len(c17Points) {
			c.CoverN("hook:"+c17Points[i], n)
		}
	}
	c.CoverN("hook-events", total)
	if total > 0 {
		c.DistinctStr(sig)
	}
	if c.WantSample() {
		c.Sample(map[string]any{"goroutines": G, "calls": len(all), "overlapping_call_pairs": ov, "hook_events": total, "interleaving_signature": sig})
	}
}
