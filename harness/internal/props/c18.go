package props

import (
	"bytes"
	"fmt"
	"github.com/protobom/protobom/pkg/native/serializers"
	"io"
	"math/rand"
	"strings"
	"sync"

	"github.com/protobom/protobom/pkg/formats"
	"github.com/protobom/protobom/pkg/native"
	"github.com/protobom/protobom/pkg/reader"
	"github.com/protobom/protobom/pkg/sbom"
	"github.com/protobom/protobom/pkg/storage"
	"github.com/protobom/protobom/pkg/writer"
	"verifharness/internal/core"
	"verifharness/internal/gen"
)

// C18 — reader/writer configuration is isolated per instance (history monitor with a per-instance model;
// every history runs in a fresh process so that package-level state starts from the library defaults).

// recBackend records the options it is handed.
type recBackend struct {
	storeOpts    []*storage.StoreOptions
	retrieveOpts []*storage.RetrieveOptions
}

func (b *recBackend) Store(_ *sbom.Document, o *storage.StoreOptions) error {
	b.storeOpts = append(b.storeOpts, o)
	return nil
}
func (b *recBackend) Retrieve(_ string, o *storage.RetrieveOptions) (*sbom.Document, error) {
	b.retrieveOpts = append(b.retrieveOpts, o)
	return sbom.NewDocument(), nil
}

type wModel struct {
	w        *writer.Writer
	name     string
	format   formats.Format
	indent   int
	render   *native.RenderOptions    // nil: the default (indent 4)
	serial   *native.SerializeOptions // nil: default
	store    *storage.StoreOptions    // nil: default (NoClobber false)
	fmtOpts  map[string]any
	backend  *recBackend
	optsDesc []string
}

type rModel struct {
	r        *reader.Reader
	name     string
	unser    *native.UnserializeOptions
	retr     *storage.RetrieveOptions
	fmtOpts  map[string]any
	backend  *recBackend
	optsDesc []string
}

var c18Formats = []formats.Format{formats.SPDX23JSON, formats.CDX14JSON, formats.CDX15JSON, formats.CDX13JSON}
var c18Keys = []string{"driver-a", "driver-b"}

// the keys under which the built-in drivers look their own options up (the driver's type name), and values of the
// option types they declare
var c18RealKeys = []string{"*serializers.SPDX23", "*serializers.CDX", "*unserializers.SPDX23", "*unserializers.CDX"}
var c18AllKeys = append(append(append([]string{}, c18Keys...), c18RealKeys...), c18RecKey)

// recSerializer is a registered driver that records the driver options it is handed by Serialize and by Render
// (the built-in drivers ignore theirs, so only a driver of the caller's own can observe them).
type recSerializer struct {
	ser, ren []any
}

const c18RecKey = "*props.recSerializer"

var c18RecFormat = formats.Format("application/x-verif-recording+json;version=1")
var c18Rec = &recSerializer{}
var c18RecOnce sync.Once

func (s *recSerializer) Serialize(_ *sbom.Document, _ *native.SerializeOptions, o interface{}) (interface{}, error) {
	s.ser = append(s.ser, o)
	return "recorded", nil
}

func (s *recSerializer) Render(_ interface{}, w io.Writer, _ *native.RenderOptions, o interface{}) error {
	s.ren = append(s.ren, o)
	_, err := w.Write([]byte("{\"recorded\":true}\n"))
	return err
}

func c18RealDriverOption(r *rand.Rand, writerSide bool) (string, any) {
	k := c18RealKeys[r.Intn(2)]
	if !writerSide {
		k = c18RealKeys[2+r.Intn(2)]
	}
	vals := []any{serializers.SPDX3Options{Indent: 2}, &serializers.SPDX3Options{Indent: 7}, serializers.SPDX3Options{Indent: 0}, serializers.SPDX3Options{Indent: 1}, 5, "text"}
	return k, vals[r.Intn(len(vals))]
}

func c18Doc() *sbom.Document {
	d := sbom.NewDocument()
	d.Metadata.Id = "urn:uuid:c18"
	d.Metadata.Version = "1"
	d.NodeList.Nodes = []*sbom.Node{{Id: "root", Name: "root", Type: sbom.Node_PACKAGE, PrimaryPurpose: []sbom.Purpose{sbom.Purpose_APPLICATION}}, {Id: "child", Name: "child"}}
	d.NodeList.Edges = []*sbom.Edge{{From: "root", Type: sbom.Edge_contains, To: []string{"child"}}}
	d.NodeList.RootElements = []string{"root"}
	return d
}

// measure: detected format of the output and (for SPDX) its indentation.
func c18Measure(out []byte) (formats.Format, int) {
	f, _, _ := sniffTracked(out)
	indent := -1
	lines := strings.Split(string(out), "\n")
	if len(lines) > 1 {
		indent = len(lines[1]) - len(strings.TrimLeft(lines[1], " "))
	}
	return f, indent
}

// option values that a case hands to several constructors (one per driver key, created on first use)
type c18WShared struct {
	opt writer.WriterOption
	v   string
}
type c18RShared struct {
	opt reader.ReaderOption
	v   string
}

var c18WSharedOpts = map[string]*c18WShared{}
var c18RSharedOpts = map[string]*c18RShared{}

func c18SharedWOpt(k string) *c18WShared {
	if c18WSharedOpts[k] == nil {
		v := "shared-writer-option-" + k
		c18WSharedOpts[k] = &c18WShared{opt: writer.WithFormatOptions(k, v), v: v}
	}
	return c18WSharedOpts[k]
}

func c18SharedROpt(k string) *c18RShared {
	if c18RSharedOpts[k] == nil {
		v := "shared-reader-option-" + k
		c18RSharedOpts[k] = &c18RShared{opt: reader.WithFormatOptions(k, v), v: v}
	}
	return c18RSharedOpts[k]
}

func c18NewWriter(r *rand.Rand, idx int, mask int) *wModel {
	m := &wModel{name: fmt.Sprintf("w%d", idx), indent: 4, fmtOpts: map[string]any{}, backend: &recBackend{}}
	var opts []writer.WriterOption
	if mask&1 != 0 {
		m.format = gen.Pick(r, c18Formats)
		opts = append(opts, writer.WithFormat(m.format))
		m.optsDesc = append(m.optsDesc, "WithFormat("+string(m.format)+")")
	}
	if mask&2 != 0 {
		m.render = &native.RenderOptions{Indent: gen.Pick(r, []int{0, 1, 2, 3, 6, 9})}
		m.indent = m.render.Indent
		opts = append(opts, writer.WithRenderOptions(m.render))
		m.optsDesc = append(m.optsDesc, fmt.Sprintf("WithRenderOptions(indent %d)", m.indent))
	}
	if mask&4 != 0 {
		m.serial = &native.SerializeOptions{}
		opts = append(opts, writer.WithSerializeOptions(m.serial))
		m.optsDesc = append(m.optsDesc, "WithSerializeOptions")
	}
	if mask&8 != 0 {
		k := gen.Pick(r, c18Keys)
		if r.Intn(2) == 0 {
			// the SAME option value handed to several constructors (a shared []WriterOption): it configures each
			// writer it is passed to and nothing else
			sh := c18SharedWOpt(k)
			m.fmtOpts[k] = sh.v
			opts = append(opts, sh.opt)
			m.optsDesc = append(m.optsDesc, "WithFormatOptions("+k+")[option value shared between constructors]")
			if r.Intn(2) == 0 {
				k2 := c18Keys[0]
				if k2 == k {
					k2 = c18Keys[1]
				}
				v2 := fmt.Sprintf("%s-opts2-%d", m.name, r.Intn(1000))
				m.fmtOpts[k2] = v2
				opts = append(opts, writer.WithFormatOptions(k2, v2))
				m.optsDesc = append(m.optsDesc, "WithFormatOptions("+k2+")")
			}
		} else {
			v := fmt.Sprintf("%s-opts-%d", m.name, r.Intn(1000))
			m.fmtOpts[k] = v
			opts = append(opts, writer.WithFormatOptions(k, v))
			m.optsDesc = append(m.optsDesc, "WithFormatOptions("+k+")")
		}
	}
	if mask&16 != 0 {
		m.store = &storage.StoreOptions{NoClobber: true, BackendOptions: m.name}
		opts = append(opts, writer.WithStoreOptions(m.store))
		m.optsDesc = append(m.optsDesc, "WithStoreOptions(NoClobber)")
	}
	if mask&32 != 0 { // nil arguments are documented no-ops
		opts = append(opts, writer.WithRenderOptions(nil), writer.WithSerializeOptions(nil), writer.WithStoreOptions(nil), writer.WithStoreRetriever(nil))
		m.optsDesc = append(m.optsDesc, "nil-options")
	}
	opts = append(opts, writer.WithStoreRetriever(m.backend))
	r.Shuffle(len(opts), func(i, j int) { opts[i], opts[j] = opts[j], opts[i] })
	if len(opts) >= 2 && r.Intn(3) == 0 {
		// another instance is first built from a PREFIX of the same option slice (which therefore has spare
		// capacity behind the prefix); the options behind the prefix still belong to the caller
		_ = writer.New(opts[:1+r.Intn(len(opts)-1)]...)
		m.optsDesc = append(m.optsDesc, "[after another writer was built from a prefix of this option slice]")
	}
	m.w = writer.New(opts...)
	return m
}

func c18NewReader(r *rand.Rand, idx int, mask int) *rModel {
	m := &rModel{name: fmt.Sprintf("r%d", idx), fmtOpts: map[string]any{}, backend: &recBackend{}}
	var opts []reader.ReaderOption
	if mask&1 != 0 {
		m.unser = &native.UnserializeOptions{}
		opts = append(opts, reader.WithUnserializeOptions(m.unser))
		m.optsDesc = append(m.optsDesc, "WithUnserializeOptions")
	}
	if mask&2 != 0 {
		m.retr = &storage.RetrieveOptions{BackendOptions: m.name}
		opts = append(opts, reader.WithRetrieveOptions(m.retr))
		m.optsDesc = append(m.optsDesc, "WithRetrieveOptions")
	}
	if mask&4 != 0 {
		k := gen.Pick(r, c18Keys)
		if r.Intn(2) == 0 {
			sh := c18SharedROpt(k)
			m.fmtOpts[k] = sh.v
			opts = append(opts, sh.opt)
			m.optsDesc = append(m.optsDesc, "WithFormatOptions("+k+")[option value shared between constructors]")
			if r.Intn(2) == 0 {
				k2 := c18Keys[0]
				if k2 == k {
					k2 = c18Keys[1]
				}
				v2 := fmt.Sprintf("%s-opts2-%d", m.name, r.Intn(1000))
				m.fmtOpts[k2] = v2
				opts = append(opts, reader.WithFormatOptions(k2, v2))
				m.optsDesc = append(m.optsDesc, "WithFormatOptions("+k2+")")
			}
		} else {
			v := fmt.Sprintf("%s-opts-%d", m.name, r.Intn(1000))
			m.fmtOpts[k] = v
			opts = append(opts, reader.WithFormatOptions(k, v))
			m.optsDesc = append(m.optsDesc, "WithFormatOptions("+k+")")
		}
	}
	if mask&8 != 0 {
		opts = append(opts, reader.WithUnserializeOptions(nil), reader.WithRetrieveOptions(nil), reader.WithSniffer(nil), reader.WithStoreRetriever(nil))
		m.optsDesc = append(m.optsDesc, "nil-options")
	}
	opts = append(opts, reader.WithStoreRetriever(m.backend))
	r.Shuffle(len(opts), func(i, j int) { opts[i], opts[j] = opts[j], opts[i] })
	if len(opts) >= 2 && r.Intn(3) == 0 {
		_ = reader.New(opts[:1+r.Intn(len(opts)-1)]...)
		m.optsDesc = append(m.optsDesc, "[after another reader was built from a prefix of this option slice]")
	}
	m.r = reader.New(opts...)
	return m
}

// checkWriter compares the observable configuration and behaviour of a live writer with its model.
func c18CheckWriter(c *core.C, m *wModel, trace []string, spdxSample []byte) bool {
	det := map[string]any{"history": trace, "instance": m.name, "own_options": m.optsDesc}
	fail := func(sig, format string, a ...any) bool {
		c.Violatef(sig, det, "after the history %v, writer %s (built with %v): %s", trace, m.name, m.optsDesc, fmt.Sprintf(format, a...))
		return false
	}
	c.Evals(1)
	o := m.w.Options
	if o == nil {
		return fail("writer-options-nil", "Options is nil")
	}
	if o.Format != m.format {
		return fail("writer-format-leak", "Options.Format is %q, its own configuration says %q", o.Format, m.format)
	}
	if o.RenderOptions == nil || o.RenderOptions.Indent != m.indent {
		return fail("writer-render-leak", "render indent is %v, its own configuration says %d", o.RenderOptions, m.indent)
	}
	if m.render != nil && o.RenderOptions != m.render {
		return fail("writer-render-leak", "RenderOptions is not the object passed to its constructor")
	}
	if o.SerializeOptions == nil || (m.serial != nil && o.SerializeOptions != m.serial) {
		return fail("writer-serialize-leak", "SerializeOptions is not its own")
	}
	wantNC := m.store != nil
	if o.StoreOptions == nil || o.StoreOptions.NoClobber != wantNC || (m.store != nil && o.StoreOptions != m.store) {
		return fail("writer-store-options-leak", "StoreOptions is %+v, its own configuration says NoClobber=%v", o.StoreOptions, wantNC)
	}
	for _, k := range c18AllKeys {
		got := o.GetFormatOptions(k)
		want, has := m.fmtOpts[k]
		if (has && got != want) || (!has && got != nil) {
			return fail("writer-format-options-leak", "format options for %q are %v, its own configuration says %v", k, got, want)
		}
	}
	// behaviour: default WriteStream uses the instance's format and indentation
	var buf bytes.Buffer
	err := m.w.WriteStream(c18Doc(), nopWC{&buf})
	if m.format == "" {
		if err == nil {
			f, _ := c18Measure(buf.Bytes())
			return fail("writer-format-leak", "WriteStream succeeded and wrote %q although this writer has no format", f)
		}
	} else {
		if err != nil {
			return fail("writer-write-error", "WriteStream failed: %v", err)
		}
		f, ind := c18Measure(buf.Bytes())
		if f != m.format {
			return fail("writer-format-leak", "WriteStream wrote %q, its own configuration says %q", f, m.format)
		}
		if m.format == formats.SPDX23JSON && ind != m.indent {
			return fail("writer-render-leak", "WriteStream indented by %d, its own configuration says %d", ind, m.indent)
		}
	}
	// Store hands the backend the instance's own store options
	n := len(m.backend.storeOpts)
	if err := m.w.Store(c18Doc()); err != nil {
		return fail("writer-store-error", "Store through the recording backend failed: %v", err)
	}
	if len(m.backend.storeOpts) != n+1 {
		return fail("writer-store-backend", "Store did not reach the instance's own backend")
	}
	got := m.backend.storeOpts[n]
	if (got != nil && got.NoClobber != wantNC) || (got == nil && wantNC) || (m.store != nil && got != m.store) {
		return fail("writer-store-options-not-own", "Store passed %+v to the backend, the instance's own store options are NoClobber=%v", got, wantNC)
	}
	return true
}

func c18CheckReader(c *core.C, m *rModel, trace []string, spdxSample []byte) bool {
	det := map[string]any{"history": trace, "instance": m.name, "own_options": m.optsDesc}
	fail := func(sig, format string, a ...any) bool {
		c.Violatef(sig, det, "after the history %v, reader %s (built with %v): %s", trace, m.name, m.optsDesc, fmt.Sprintf(format, a...))
		return false
	}
	c.Evals(1)
	o := m.r.Options
	if o == nil {
		return fail("reader-options-nil", "Options is nil")
	}
	if o.Format != "" {
		return fail("reader-format-leak", "Options.Format is %q but no constructor option sets a reader format", o.Format)
	}
	if o.UnserializeOptions == nil || (m.unser != nil && o.UnserializeOptions != m.unser) {
		return fail("reader-unserialize-leak", "UnserializeOptions is not its own")
	}
	if (m.retr == nil && o.RetrieveOptions != nil) || (m.retr != nil && o.RetrieveOptions != m.retr) {
		return fail("reader-retrieve-options-leak", "RetrieveOptions is %+v, its own configuration says %+v", o.RetrieveOptions, m.retr)
	}
	for _, k := range c18AllKeys {
		got := o.GetFormatOptions(k)
		want, has := m.fmtOpts[k]
		if (has && got != want) || (!has && got != nil) {
			return fail("reader-format-options-leak", "format options for %q are %v, its own configuration says %v", k, got, want)
		}
	}
	doc, err := m.r.ParseStream(bytes.NewReader(spdxSample))
	if err != nil || doc == nil || len(doc.NodeList.Nodes) != 2 {
		return fail("reader-parse", "default ParseStream of an SPDX sample failed: %v", err)
	}
	n := len(m.backend.retrieveOpts)
	if _, err := m.r.Retrieve("some-id"); err != nil {
		return fail("reader-retrieve-error", "Retrieve through the recording backend failed: %v", err)
	}
	if len(m.backend.retrieveOpts) != n+1 {
		return fail("reader-retrieve-backend", "Retrieve did not reach the instance's own backend")
	}
	if got := m.backend.retrieveOpts[n]; got != m.retr {
		return fail("reader-retrieve-options-not-own", "Retrieve passed %+v to the backend, the instance's own retrieve options are %+v", got, m.retr)
	}
	return true
}

func init() {
	core.Register(&core.Prop{
		ID: "C18", Level: "exploration",
		Rule: "each case is a history of <=12 steps (thorough <=40) in a FRESH process (package-level state starts from the library defaults): construct a writer or reader with a subset of its options (the first 64+16 cases force every subset; nil arguments included; driver-option values are in half of the cases ONE option value handed to several constructors, optionally followed by a second driver option), " +
			"make a per-call WriteStreamWithOptions / ParseStreamWithOptions (also with per-call driver, store and retrieve options), or configure a live instance through its exported Options (format, indentation, driver options, store/retrieve options). After EVERY step the monitor compares every live instance with its own model (documented defaults: no format, indent 4, NoClobber false, no format options) - Options fields, " +
			"the format and indentation WriteStream actually produces, the options a recording storage backend receives from Store/Retrieve - and a constructor without options is checked against the documented defaults. Per-call options must be used for that call and be gone for the next default call, also when the call fails (wrong format for the data; a format no driver is registered for). " +
			"distinct = hash of the history; non-trivial = >=2 live instances with different configurations.",
		Assumptions: []string{"what an absent field of a per-call Options falls back to is not specified by the property and not judged", "CycloneDX rendering ignores the indentation option, so indentation is observed on SPDX output only"},
		NCases: func(tier string) int {
			if tier == "thorough" {
				return 60000
			}
			return 2400
		},
		Case:            c18Case,
		CasesPerProcess: 1,
	})
}

func c18Case(c *core.C) {
	r := c.R
	c18WSharedOpts, c18RSharedOpts = map[string]*c18WShared{}, map[string]*c18RShared{}
	spdxSample, err := writeDoc(c18Doc(), formats.SPDX23JSON, 2)
	if err != nil {
		c.Violatef("harness-sample", nil, "cannot write the SPDX sample: %v", err)
		return
	}
	// NOTE: writeDoc constructs a writer with no options (part of the history: it must not disturb anything)
	var ws []*wModel
	var rs []*rModel
	var bw []*writer.Writer // writers and readers that keep the built-in storage backend
	var br []*reader.Reader
	var bwPath, brPath []string
	trace := []string{}
	maxSteps := 12
	if c.Thorough() {
		maxSteps = 40
	}
	steps := 2 + r.Intn(maxSteps-1)
	checkAll := func() bool {
		for _, m := range ws {
			if !c18CheckWriter(c, m, trace, spdxSample) {
				return false
			}
		}
		for _, m := range rs {
			if !c18CheckReader(c, m, trace, spdxSample) {
				return false
			}
		}
		// instances that keep the built-in storage backend: each has a backend of its own, configured only through
		// itself, and a new instance starts with the backend's documented default (no path)
		seenBackends := map[*storage.FileSystem]string{}
		for i, w := range bw {
			fs, ok := w.Storage.(*storage.FileSystem)
			c.Evals(1)
			if !ok || fs == nil {
				c.Violatef("writer-backend-not-built-in", trace, "writer built without a storage option has backend %T (history %v)", w.Storage, trace)
				return false
			}
			if other, dup := seenBackends[fs]; dup {
				c.Violatef("writer-backend-shared", trace, "two instances built without a storage option share one backend value (%s and writer %d) (history %v)", other, i, trace)
				return false
			}
			seenBackends[fs] = fmt.Sprintf("writer %d", i)
			if fs.Options.Path != bwPath[i] {
				c.Violatef("writer-backend-leak", trace, "the built-in backend of writer %d is configured with path %q, its own configuration says %q (history %v)", i, fs.Options.Path, bwPath[i], trace)
				return false
			}
		}
		for i, rd := range br {
			fs, ok := rd.Storage.(*storage.FileSystem)
			c.Evals(1)
			if !ok || fs == nil {
				c.Violatef("reader-backend-not-built-in", trace, "reader built without a storage option has backend %T (history %v)", rd.Storage, trace)
				return false
			}
			if other, dup := seenBackends[fs]; dup {
				c.Violatef("reader-backend-shared", trace, "two instances built without a storage option share one backend value (%s and reader %d) (history %v)", other, i, trace)
				return false
			}
			seenBackends[fs] = fmt.Sprintf("reader %d", i)
			if fs.Options.Path != brPath[i] {
				c.Violatef("reader-backend-leak", trace, "the built-in backend of reader %d is configured with path %q, its own configuration says %q (history %v)", i, fs.Options.Path, brPath[i], trace)
				return false
			}
		}
		if fs, ok := writer.New().Storage.(*storage.FileSystem); !ok || fs.Options.Path != "" {
			c.Violatef("writer-backend-leak", trace, "a new writer's built-in backend does not start with the default configuration (history %v)", trace)
			return false
		}
		if fs, ok := reader.New().Storage.(*storage.FileSystem); !ok || fs.Options.Path != "" {
			c.Violatef("reader-backend-leak", trace, "a new reader's built-in backend does not start with the default configuration (history %v)", trace)
			return false
		}
		// a constructor without options yields the documented defaults, whatever happened before
		dm := &wModel{name: "fresh-default-writer", indent: 4, fmtOpts: map[string]any{}, backend: &recBackend{}, optsDesc: []string{"(no options)"}}
		dm.w = writer.New(writer.WithStoreRetriever(dm.backend))
		if !c18CheckWriter(c, dm, trace, spdxSample) {
			return false
		}
		dr := &rModel{name: "fresh-default-reader", fmtOpts: map[string]any{}, backend: &recBackend{}, optsDesc: []string{"(no options)"}}
		dr.r = reader.New(reader.WithStoreRetriever(dr.backend))
		return c18CheckReader(c, dr, trace, spdxSample)
	}
	for s := 0; s < steps; s++ {
		if r.Intn(5) == 0 {
			// an instance that keeps the built-in backend, sometimes configured through its own Storage field
			if r.Intn(2) == 0 {
				w := writer.New(writer.WithFormat(gen.Pick(r, c18Formats)))
				bw, bwPath = append(bw, w), append(bwPath, "")
				trace = append(trace, fmt.Sprintf("bw%d=writer.New(built-in backend)", len(bw)-1))
			} else {
				rd := reader.New()
				br, brPath = append(br, rd), append(brPath, "")
				trace = append(trace, fmt.Sprintf("br%d=reader.New(built-in backend)", len(br)-1))
			}
			if len(bw) > 0 && r.Intn(2) == 0 {
				i := r.Intn(len(bw))
				if fs, ok := bw[i].Storage.(*storage.FileSystem); ok {
					bwPath[i] = fmt.Sprintf("/nonexistent/verif-bw%d-%d", i, s)
					fs.Options.Path = bwPath[i]
					trace = append(trace, fmt.Sprintf("bw%d.Storage.Options.Path=own", i))
				}
			}
			if len(br) > 0 && r.Intn(2) == 0 {
				i := r.Intn(len(br))
				if fs, ok := br[i].Storage.(*storage.FileSystem); ok {
					brPath[i] = fmt.Sprintf("/nonexistent/verif-br%d-%d", i, s)
					fs.Options.Path = brPath[i]
					trace = append(trace, fmt.Sprintf("br%d.Storage.Options.Path=own", i))
				}
			}
			c.Cover("instances-keeping-the-built-in-storage-backend")
			if !checkAll() {
				return
			}
		}
		kind := r.Intn(8)
		if s == 0 {
			kind = c.K % 2 // forced subsets start with a constructor
		}
		if (kind == 2 || kind == 3) && len(ws) == 0 {
			kind = 0
		}
		if (kind == 4 || kind == 5 || kind == 7) && len(rs) == 0 {
			kind = 1
		}
		if kind == 6 && len(ws) == 0 {
			kind = 0
		}
		switch {
		case kind == 0:
			mask := r.Intn(64)
			if s == 0 && c.K < 128 {
				mask = (c.K / 2) % 64
			}
			m := c18NewWriter(r, len(ws), mask)
			ws = append(ws, m)
			trace = append(trace, fmt.Sprintf("%s=writer.New(%s)", m.name, strings.Join(m.optsDesc, ",")))
			c.Cover(fmt.Sprintf("writer-option-subset:%d", mask))
			if strings.Contains(strings.Join(m.optsDesc, ","), "shared between constructors") {
				c.Cover("writer-built-from-an-option-value-shared-between-constructors")
			}
			if strings.Contains(strings.Join(m.optsDesc, ","), "prefix of this option slice") {
				c.Cover("writer-built-after-another-from-a-prefix-of-the-same-option-slice")
			}
		case kind == 1:
			rm := r.Intn(16)
			if s == 0 && c.K < 128 {
				rm = (c.K / 2) % 16
			}
			m := c18NewReader(r, len(rs), rm)
			rs = append(rs, m)
			trace = append(trace, fmt.Sprintf("%s=reader.New(%s)", m.name, strings.Join(m.optsDesc, ",")))
			c.Cover(fmt.Sprintf("reader-option-subset:%d", rm))
			if strings.Contains(strings.Join(m.optsDesc, ","), "shared between constructors") {
				c.Cover("reader-built-from-an-option-value-shared-between-constructors")
			}
		case kind == 6:
			// configure a live writer through its exported Options: only this instance changes
			m := ws[r.Intn(len(ws))]
			switch r.Intn(4) {
			case 0:
				m.format = gen.Pick(r, c18Formats)
				m.w.Options.Format = m.format
				trace = append(trace, fmt.Sprintf("%s.Options.Format=%s", m.name, m.format))
			case 1:
				var k string
				var v any
				k, v = gen.Pick(r, c18Keys), fmt.Sprintf("%s-direct-%d", m.name, s)
				if r.Intn(3) == 0 {
					k, v = c18RealDriverOption(r, true)
				}
				m.fmtOpts[k] = v
				m.w.Options.SetFormatOptions(k, v)
				trace = append(trace, fmt.Sprintf("%s.Options.SetFormatOptions(%s)", m.name, k))
			case 2:
				m.indent = gen.Pick(r, []int{0, 1, 2, 3, 6, 9})
				m.w.Options.RenderOptions.Indent = m.indent
				trace = append(trace, fmt.Sprintf("%s.Options.RenderOptions.Indent=%d", m.name, m.indent))
			default:
				m.w.Options.StoreOptions.NoClobber = true
				if m.store == nil {
					m.store = m.w.Options.StoreOptions
				}
				trace = append(trace, fmt.Sprintf("%s.Options.StoreOptions.NoClobber=true", m.name))
			}
			c.Cover("direct-configuration-of-a-live-writer")
		case kind == 7:
			// configure a live reader through its exported Options
			m := rs[r.Intn(len(rs))]
			switch r.Intn(3) {
			case 0:
				k, v := gen.Pick(r, c18Keys), fmt.Sprintf("%s-direct-%d", m.name, s)
				m.fmtOpts[k] = v
				m.r.Options.SetFormatOptions(k, v)
				trace = append(trace, fmt.Sprintf("%s.Options.SetFormatOptions(%s)", m.name, k))
			case 1:
				m.retr = &storage.RetrieveOptions{BackendOptions: m.name + "-direct"}
				m.r.Options.RetrieveOptions = m.retr
				trace = append(trace, fmt.Sprintf("%s.Options.RetrieveOptions=own", m.name))
			default:
				m.unser = &native.UnserializeOptions{}
				m.r.Options.UnserializeOptions = m.unser
				trace = append(trace, fmt.Sprintf("%s.Options.UnserializeOptions=own", m.name))
			}
			c.Cover("direct-configuration-of-a-live-reader")
		case kind <= 3:
			// per-call options on a writer: used for this call only
			m := ws[r.Intn(len(ws))]
			f := gen.Pick(r, c18Formats)
			ind := gen.Pick(r, []int{0, 1, 5, 7})
			var buf bytes.Buffer
			trace = append(trace, fmt.Sprintf("%s.WriteStreamWithOptions(%s,indent %d)", m.name, f, ind))
			callOpts := &writer.Options{Format: f, RenderOptions: &native.RenderOptions{Indent: ind}, SerializeOptions: &native.SerializeOptions{}}
			if r.Intn(2) == 0 {
				// per-call driver options: for this call only
				callOpts.SetFormatOptions(gen.Pick(r, c18Keys), fmt.Sprintf("per-call-%d", s))
				if r.Intn(2) == 0 {
					// options addressed to the built-in driver itself, of the option type it declares
					k, v := c18RealDriverOption(r, true)
					callOpts.SetFormatOptions(k, v)
					c.Cover("per-call-write-with-options-addressed-to-the-built-in-driver")
				}
				c.Cover("per-call-write-with-driver-options")
			}
			if r.Intn(3) == 0 {
				callOpts.StoreOptions = &storage.StoreOptions{NoClobber: true, BackendOptions: "per-call"}
			}
			sparse := r.Intn(3) == 0
			if sparse {
				// a per-call option set with absent sections (the library falls back to defaults for them)
				callOpts.RenderOptions, callOpts.SerializeOptions = nil, nil
				ind = -1
			}
			recording := r.Intn(4) == 0
			var recWant any
			if recording {
				// a per-call write through a driver of the caller's own: the driver options that Serialize AND Render
				// receive are the per-call set's (none when it has none), whatever the instance holds for that driver
				c18RecOnce.Do(func() { writer.RegisterSerializer(c18RecFormat, c18Rec) })
				callOpts.Format = c18RecFormat
				f = c18RecFormat
				if r.Intn(3) != 0 {
					recWant = fmt.Sprintf("per-call-rec-%d", s)
					callOpts.SetFormatOptions(c18RecKey, recWant)
				}
				if r.Intn(2) == 0 {
					v := fmt.Sprintf("%s-own-rec-%d", m.name, s)
					m.fmtOpts[c18RecKey] = v
					m.w.Options.SetFormatOptions(c18RecKey, v)
					trace = append(trace, fmt.Sprintf("%s.Options.SetFormatOptions(%s)", m.name, c18RecKey))
				}
				c18Rec.ser, c18Rec.ren = nil, nil
				c.Cover("per-call-write-through-a-recording-driver")
			}
			err := m.w.WriteStreamWithOptions(c18Doc(), nopWC{&buf}, callOpts)
			if recording {
				c.Evals(1)
				if err != nil || len(c18Rec.ser) != 1 || len(c18Rec.ren) != 1 {
					c.Violatef("per-call-recording-driver-not-called", trace, "per-call write in the recording driver's format: err=%v, Serialize calls %d, Render calls %d (history %v)", err, len(c18Rec.ser), len(c18Rec.ren), trace)
					return
				}
				if c18Rec.ser[0] != recWant || c18Rec.ren[0] != recWant {
					c.Violatef("per-call-driver-options-not-used", trace, "per-call write with driver options %v: Serialize received %v, Render received %v (the instance holds %v) (history %v)", recWant, c18Rec.ser[0], c18Rec.ren[0], m.fmtOpts[c18RecKey], trace)
					return
				}
				if !checkAll() {
					return
				}
				continue
			}
			if sparse {
				// afterwards the caller configures ITS OWN option set with the usual create-if-nil idiom; nobody else may change
				if callOpts.RenderOptions == nil {
					callOpts.RenderOptions = &native.RenderOptions{}
				}
				callOpts.RenderOptions.Indent = 2
				if callOpts.StoreOptions == nil {
					callOpts.StoreOptions = &storage.StoreOptions{}
				}
				callOpts.StoreOptions.NoClobber = true
				trace = append(trace, "(caller then sets Indent=2, NoClobber=true on its own per-call option set)")
				c.Cover("per-call-write-with-absent-sections")
			}
			c.Evals(1)
			c.Cover("per-call-write")
			if err != nil {
				c.Violatef("per-call-write-error", trace, "WriteStreamWithOptions(%s) failed: %v (history %v)", f, err, trace)
				return
			}
			gf, gi := c18Measure(buf.Bytes())
			if gf != f || (f == formats.SPDX23JSON && ind >= 0 && gi != ind) {
				c.Violatef("per-call-options-not-used", trace, "WriteStreamWithOptions(%s, indent %d) wrote %s with indent %d (history %v)", f, ind, gf, gi, trace)
				return
			}
		default:
			m := rs[r.Intn(len(rs))]
			trace = append(trace, fmt.Sprintf("%s.ParseStreamWithOptions(format SPDX)", m.name))
			callOpts := &reader.Options{Format: formats.SPDX23JSON, UnserializeOptions: &native.UnserializeOptions{}}
			if r.Intn(2) == 0 {
				callOpts.SetFormatOptions(gen.Pick(r, c18Keys), fmt.Sprintf("per-call-%d", s))
				callOpts.RetrieveOptions = &storage.RetrieveOptions{BackendOptions: "per-call"}
				c.Cover("per-call-parse-with-driver-options")
			}
			doc, err := m.r.ParseStreamWithOptions(bytes.NewReader(spdxSample), callOpts)
			c.Evals(1)
			c.Cover("per-call-parse")
			if err != nil || doc == nil {
				c.Violatef("per-call-parse-error", trace, "ParseStreamWithOptions failed: %v (history %v)", err, trace)
				return
			}
			// a per-call format that does not fit the data must fail for this call and be gone for the next default call
			_, err = m.r.ParseStreamWithOptions(bytes.NewReader(spdxSample), &reader.Options{Format: formats.CDX15JSON, UnserializeOptions: &native.UnserializeOptions{}})
			_ = err
			// per-call calls that fail before any driver runs (no driver is registered for the format they name), with
			// a complete option set of their own: the instance must come out of them as it went in
			noDriver := gen.Pick(r, []formats.Format{formats.SPDX22JSON, formats.SPDX23TV, "application/x-verif-no-such-format"})
			bad := &reader.Options{Format: noDriver, UnserializeOptions: &native.UnserializeOptions{}, RetrieveOptions: &storage.RetrieveOptions{BackendOptions: "failed-call"}}
			bad.SetFormatOptions(gen.Pick(r, c18Keys), "failed-call")
			trace = append(trace, fmt.Sprintf("%s.ParseStreamWithOptions(format %s, for which no driver is registered)", m.name, noDriver))
			if _, err = m.r.ParseStreamWithOptions(bytes.NewReader(spdxSample), bad); err != nil {
				c.Cover("per-call-parse-failing-at-driver-lookup")
			}
			if len(ws) > 0 {
				wm := ws[r.Intn(len(ws))]
				badW := &writer.Options{Format: "application/x-verif-no-such-format", RenderOptions: &native.RenderOptions{Indent: 9}, SerializeOptions: &native.SerializeOptions{}, StoreOptions: &storage.StoreOptions{NoClobber: true, BackendOptions: "failed-call"}}
				trace = append(trace, fmt.Sprintf("%s.WriteStreamWithOptions(a format for which no driver is registered)", wm.name))
				var sink bytes.Buffer
				if werr := wm.w.WriteStreamWithOptions(c18Doc(), nopWC{&sink}, badW); werr != nil {
					c.Cover("per-call-write-failing-at-driver-lookup")
				}
			}
		}
		if !checkAll() {
			return
		}
	}
	distinctCfg := gen.Set{}
	for _, m := range ws {
		distinctCfg.Add(fmt.Sprint(m.format, m.indent, m.store != nil, m.fmtOpts))
	}
	if len(distinctCfg) >= 2 || (len(ws) >= 1 && len(rs) >= 1) {
		c.DistinctStr(strings.Join(trace, ";"))
	}
	if c.WantSample() && len(trace) >= 4 {
		c.Sample(map[string]any{"history": trace})
	}
}
