package props

import (
	"fmt"
	"math/rand"
	"strings"

	"github.com/protobom/protobom/pkg/sbom"
	"google.golang.org/protobuf/proto"
	"google.golang.org/protobuf/reflect/protoreflect"
	"verifharness/internal/core"
	"verifharness/internal/gen"
)

// C12 — copies and combined results are independent values (mutation-at-every-path monitor + history monitor).

type c12Type struct {
	name string
	make func(r *rand.Rand) proto.Message
	copy func(m proto.Message) proto.Message
	eq   func(a, b proto.Message) (bool, bool) // (library Equal result, has library Equal)
}

func fullPop() gen.PopOpts {
	o := gen.DefaultPop()
	o.PFill = 1
	o.MaxList = 2
	o.Depth = 3
	return o
}

// spare gives every slice reachable from the list spare capacity (as slices grown by append have): sharing a
// backing array only shows when one side can grow in place.
func spare[T any](xs []T) []T {
	if xs == nil {
		return nil
	}
	out := make([]T, len(xs), len(xs)+4)
	copy(out, xs)
	return out
}

func spareNode(n *sbom.Node) {
	n.Licenses, n.Attribution, n.FileTypes, n.PrimaryPurpose = spare(n.Licenses), spare(n.Attribution), spare(n.FileTypes), spare(n.PrimaryPurpose)
	n.Suppliers, n.Originators, n.ExternalReferences = spare(n.Suppliers), spare(n.Originators), spare(n.ExternalReferences)
	for _, ps := range [][]*sbom.Person{n.Suppliers, n.Originators} {
		for _, p := range ps {
			p.Contacts = spare(p.Contacts)
			for _, cc := range p.Contacts {
				cc.Contacts = spare(cc.Contacts)
			}
		}
	}
}

// emptyPresent turns a random subset of a node's collections into present-but-empty ones (an allocated map without
// entries, a slice of length 0 with room to grow) - what sbom.NewNode() and decoders hand out. Sharing such a
// collection between a copy and its source shows only on the first insert.
func emptyPresent(r *rand.Rand, n *sbom.Node) {
	if r.Intn(2) == 0 {
		n.Hashes = map[int32]string{}
	}
	if r.Intn(2) == 0 {
		n.Identifiers = map[int32]string{}
	}
	for _, er := range n.ExternalReferences {
		if r.Intn(2) == 0 {
			er.Hashes = map[int32]string{}
		}
	}
	if r.Intn(3) == 0 {
		n.Licenses = make([]string, 0, 4)
	}
	if r.Intn(3) == 0 {
		n.Attribution = make([]string, 0, 4)
	}
	if r.Intn(3) == 0 {
		n.FileTypes = make([]string, 0, 4)
	}
	if r.Intn(3) == 0 {
		n.PrimaryPurpose = make([]sbom.Purpose, 0, 4)
	}
	if r.Intn(3) == 0 {
		n.Suppliers = make([]*sbom.Person, 0, 4)
	}
	if r.Intn(3) == 0 {
		n.Originators = make([]*sbom.Person, 0, 4)
	}
	if r.Intn(4) == 0 {
		n.ExternalReferences = make([]*sbom.ExternalReference, 0, 4)
	}
}

func spareList(nl *sbom.NodeList) *sbom.NodeList {
	nl.Nodes, nl.Edges, nl.RootElements = spare(nl.Nodes), spare(nl.Edges), spare(nl.RootElements)
	for _, e := range nl.Edges {
		e.To = spare(e.To)
	}
	for _, n := range nl.Nodes {
		spareNode(n)
	}
	return nl
}

func fullNodeList(r *rand.Rand, ids []string, o gen.PopOpts) *sbom.NodeList {
	nl := &sbom.NodeList{}
	for _, id := range ids {
		nd := gen.Node(r, id, o)
		if r.Intn(4) == 0 {
			emptyPresent(r, nd)
		}
		nl.Nodes = append(nl.Nodes, nd)
	}
	for i, id := range ids {
		nl.Edges = append(nl.Edges, &sbom.Edge{From: id, Type: sbom.Edge_contains, To: []string{ids[(i+1)%len(ids)], ids[(i+2)%len(ids)]}})
	}
	nl.RootElements = []string{ids[0], ids[len(ids)-1]}
	return spareList(nl)
}

// c12Targets: target lists of every shape an edge value can hold - repeated, unsorted, self-referential, empty.
func c12Targets(r *rand.Rand) []string {
	switch r.Intn(6) {
	case 0:
		return []string{"b", "c", "b"}
	case 1:
		return []string{"d", "b", "c", "d", "d"}
	case 2:
		return []string{"a"}
	case 3:
		return []string{}
	case 4:
		return []string{"c", "b", ""}
	}
	return []string{"b", "c", "d"}[:1+r.Intn(3)]
}

// c12RawList: a list as a decoder or a caller may hand it over - repeated targets, several edge records per
// source and type, self loops, dangling targets and roots, repeated roots (copies must still equal their source).
func c12RawList(r *rand.Rand, ids []string, o gen.PopOpts) *sbom.NodeList {
	nl := &sbom.NodeList{}
	for _, id := range ids {
		nl.Nodes = append(nl.Nodes, gen.Node(r, id, o))
	}
	if r.Intn(3) == 0 {
		// a second node object carrying an identifier the list already has, with other content (a decoder does not
		// object to that; a copy must still hold what its source holds, position by position)
		nl.Nodes = append(nl.Nodes, gen.Node(r, ids[r.Intn(len(ids))], o))
	}
	n := 1 + r.Intn(5)
	for i := 0; i < n; i++ {
		var to []string
		for j := 0; j < r.Intn(4); j++ {
			to = append(to, gen.Pick(r, append([]string{"zz"}, ids...)))
		}
		if len(to) > 0 && r.Intn(2) == 0 {
			to = append(to, to[0])
		}
		nl.Edges = append(nl.Edges, &sbom.Edge{From: gen.Pick(r, ids), Type: gen.Pick(r, []sbom.Edge_Type{sbom.Edge_contains, sbom.Edge_dependsOn}), To: to})
	}
	nl.RootElements = []string{ids[len(ids)-1], ids[0], ids[len(ids)-1], "zz"}[:1+r.Intn(4)]
	return spareList(nl)
}

var c12Types = []c12Type{
	{"Node", func(r *rand.Rand) proto.Message {
		n := gen.Node(r, "n", fullPop())
		spareNode(n)
		if r.Intn(3) == 0 {
			emptyPresent(r, n)
		}
		return n
	},
		func(m proto.Message) proto.Message { return m.(*sbom.Node).Copy() },
		func(a, b proto.Message) (bool, bool) { return a.(*sbom.Node).Equal(b.(*sbom.Node)), true }},
	{"Edge", func(r *rand.Rand) proto.Message {
		return &sbom.Edge{From: gen.Pick(r, []string{"a", "a", "", "b"}), Type: sbom.Edge_Type(gen.Pick(r, []int{1 + r.Intn(44), 0, 45, 1000, -1})), To: spare(c12Targets(r))}
	},
		func(m proto.Message) proto.Message { return m.(*sbom.Edge).Copy() },
		func(a, b proto.Message) (bool, bool) { return a.(*sbom.Edge).Equal(b.(*sbom.Edge)), true }},
	{"Person", func(r *rand.Rand) proto.Message {
		p := &sbom.Person{}
		gen.Populate(r, p.ProtoReflect(), fullPop())
		return p
	},
		func(m proto.Message) proto.Message { return m.(*sbom.Person).Copy() },
		func(a, b proto.Message) (bool, bool) { return false, false }},
	{"ExternalReference", func(r *rand.Rand) proto.Message {
		p := &sbom.ExternalReference{}
		gen.Populate(r, p.ProtoReflect(), fullPop())
		if r.Intn(3) == 0 {
			p.Hashes = map[int32]string{}
		}
		return p
	},
		func(m proto.Message) proto.Message { return m.(*sbom.ExternalReference).Copy() },
		func(a, b proto.Message) (bool, bool) { return false, false }},
	{"NodeList", func(r *rand.Rand) proto.Message {
		if r.Intn(2) == 0 {
			return c12RawList(r, []string{"a", "b", "c"}, fullPop())
		}
		return fullNodeList(r, []string{"a", "b", "c"}, fullPop())
	},
		func(m proto.Message) proto.Message { return m.(*sbom.NodeList).Copy() },
		func(a, b proto.Message) (bool, bool) { return a.(*sbom.NodeList).Equal(b.(*sbom.NodeList)), true }},
}

var c12Muts = map[string][]gen.Mut{}

func mutsFor(m proto.Message) []gen.Mut {
	name := string(m.ProtoReflect().Descriptor().FullName())
	if ms, ok := c12Muts[name]; ok {
		return ms
	}
	ms := gen.EnumerateMuts(m.ProtoReflect().Descriptor(), 3)
	c12Muts[name] = ms
	return ms
}

// independence: mutate `victim` at every path and verify `other` keeps its snapshot. rebuild() yields a fresh (victim, other) pair.
func c12Independence(c *core.C, what string, rebuild func() (victim, other proto.Message), sigPrefix string) bool {
	v0, _ := rebuild()
	muts := mutsFor(v0)
	for _, mu := range muts {
		victim, other := rebuild()
		snap := proto.Clone(other)
		// append on both sides: spare capacity shared between two slices shows up only when both grow
		if !gen.Apply(c.R, victim.ProtoReflect(), mu, 0, fullPop()) {
			continue
		}
		c.Evals(1)
		c.Cover("mutated-path:" + what + ":" + mu.FieldPath())
		if !proto.Equal(other, snap) {
			c.Violatef(sigPrefix+":"+mu.FieldPath()+":"+mu.Action, map[string]any{"path": mu.String(), "what": what}, "%s: mutating %s at %s changed the other value (shared mutable state)", what, what, mu.String())
			return false
		}
		if mu.Action == "append" {
			// grow the other side as well and make sure the first side keeps what it appended
			snapV := proto.Clone(victim)
			if gen.Apply(c.R, other.ProtoReflect(), mu, 1, fullPop()) && !proto.Equal(victim, snapV) {
				c.Violatef(sigPrefix+":"+mu.FieldPath()+":append-both", map[string]any{"path": mu.String(), "what": what}, "%s: appending at %s on both sides made one overwrite the other (shared backing array)", what, mu.String())
				return false
			}
		}
	}
	return true
}

func init() {
	core.Register(&core.Prop{
		ID: "C12", Level: "exploration",
		Rule: "case kinds by k mod 4: (0) for each of Node, Edge, Person, ExternalReference, NodeList: populate every field (reflection, nesting depth 3), copy, require library Equal and field-by-field equality, " +
			"then for EVERY mutation site enumerated by reflection (scalar set, list element set/append/clear, map set/new/delete, nested message fields; both directions) mutate one side and compare the other with its pre-mutation snapshot; " +
			"(1) the same for Union results against both operands, (2) for Intersect results; (3) histories of <=14 calls over a pool of operands (Union, Intersect, five Copy methods produce results; Add, RemoveNodes, Relate*, AddNode/AddEdge mutate operands or results) " +
			"where after every call every earlier result must equal its snapshot. Values also take the raw shapes decoders hand over: repeated, empty and self targets, several edge records per source and type, repeated and dangling roots, two different nodes under one identifier, present-but-empty collections (allocated maps without entries, zero-length slices with spare capacity). distinct = hash of (kind, populated value); non-trivial = value with nested messages / history with >=2 results.",
		Assumptions: []string{"values hold no nil elements inside repeated message fields", "nil and empty collections are identified (the API cannot tell them apart)"},
		NCases: func(tier string) int {
			if tier == "thorough" {
				return 12000
			}
			return 480
		},
		Case: c12Case,
		ExhaustiveSubspaces: func(string) []string {
			return []string{"every mutation site enumerated by reflection over Node, Edge, Person, ExternalReference, NodeList to nesting depth 3 (per populated instance)"}
		},
	})
}

func c12Case(c *core.C) {
	switch c.K % 4 {
	case 0:
		c12Copies(c)
	case 1:
		c12Combined(c, "Union")
	case 2:
		c12Combined(c, "Intersect")
	case 3:
		c12History(c)
	}
}

func c12Copies(c *core.C) {
	r := c.R
	for _, t := range c12Types {
		seed := r.Int63()
		mk := func() proto.Message { return t.make(rand.New(rand.NewSource(seed))) }
		x := mk()
		c.DistinctStr("copy:" + t.name + ":" + fmt.Sprint(x))
		if c.WantSample() && t.name == "Node" {
			c.Sample(map[string]any{"kind": "copy", "type": t.name, "value": fmt.Sprint(x)[:min(400, len(fmt.Sprint(x)))]})
		}
		var cp proto.Message
		if guard(c, t.name+".Copy", fmt.Sprint(x), func() { cp = t.copy(x) }) {
			continue
		}
		c.Evals(1)
		if !proto.Equal(x, mk()) {
			c.Violatef("copy-mutates-source:"+t.name, fmt.Sprint(x), "%s.Copy changed its source", t.name)
			continue
		}
		if le, has := t.eq(x, cp); has && !le {
			c.Violatef("copy-not-Equal:"+t.name, map[string]any{"source": fmt.Sprint(x), "copy": fmt.Sprint(cp)}, "%s.Copy() does not compare Equal to its source", t.name)
			continue
		}
		if !proto.Equal(x, cp) {
			c.Violatef("copy-content-differs:"+t.name, map[string]any{"source": fmt.Sprint(x), "copy": fmt.Sprint(cp)}, "%s.Copy() differs from its source field by field: %s", t.name, firstDiff(x, cp))
			continue
		}
		// both directions
		ok := c12Independence(c, t.name+" copy", func() (proto.Message, proto.Message) { s := mk(); return t.copy(s), s }, "copy-shares:"+t.name)
		if ok {
			c12Independence(c, t.name+" source", func() (proto.Message, proto.Message) { s := mk(); return s, t.copy(s) }, "copy-shares:"+t.name)
		}
	}
}

// firstDiff names the first top-level field in which two messages differ.
func firstDiff(a, b proto.Message) string {
	ar, br := a.ProtoReflect(), b.ProtoReflect()
	fds := ar.Descriptor().Fields()
	for i := 0; i < fds.Len(); i++ {
		fd := fds.Get(i)
		if fieldCanon(ar, fd, true) != fieldCanon(br, fd, true) {
			return fmt.Sprintf("field %s: %s vs %s", fd.Name(), fieldCanon(ar, fd, true), fieldCanon(br, fd, true))
		}
	}
	return "(no top-level difference)"
}

func c12Operands(seed int64) (*sbom.NodeList, *sbom.NodeList) {
	r := rand.New(rand.NewSource(seed))
	// a: a,b,c ; b: b,c,d  -> shared b,c ; unshared a / d
	a, b := fullNodeList(r, []string{"a", "b", "c"}, fullPop()), fullNodeList(r, []string{"b", "c", "d"}, fullPop())
	a.RootElements = spare([]string{"a", "b", "c"}) // three roots with room to grow; b adds root d
	// operand shapes on which an implementation may take a shortcut: an empty receiver or argument (the start of
	// an accumulating loop), operands over the same identifiers, disjoint operands
	switch uint64(seed) % 8 {
	case 1:
		a = &sbom.NodeList{}
	case 2:
		a = sbom.NewNodeList()
	case 3:
		b = &sbom.NodeList{}
	case 4:
		b = fullNodeList(r, []string{"a", "b", "c"}, fullPop())
	case 5:
		b = fullNodeList(r, []string{"x", "y"}, fullPop())
	case 6:
		// the argument was extracted from the receiver and holds the receiver's own node objects (what NodeGraph,
		// NodeSiblings, NodeDescendants and GetNodesByPurlType return)
		b = &sbom.NodeList{Nodes: spare(append([]*sbom.Node{}, a.Nodes[:2]...)), RootElements: spare([]string{a.Nodes[0].Id})}
		for _, e := range a.Edges {
			b.Edges = append(b.Edges, e)
		}
		b.Edges = spare(b.Edges)
	case 7:
		b = a // one list in both places
	}
	return a, b
}

func c12Combined(c *core.C, op string) {
	seed := c.R.Int63()
	apply := func(a, b *sbom.NodeList) *sbom.NodeList {
		if op == "Union" {
			return a.Union(b)
		}
		return a.Intersect(b)
	}
	a0, b0 := c12Operands(seed)
	c.DistinctStr(op + fmt.Sprint(a0) + fmt.Sprint(b0))
	if c.WantSample() {
		c.Sample(map[string]any{"kind": op + " result vs operands", "A": gen.Canon(a0), "B": gen.Canon(b0)})
	}
	var res *sbom.NodeList
	if guard(c, op, nil, func() { res = apply(a0, b0) }) || res == nil {
		return
	}
	// The call itself must leave the operands alone (also judged by C11; needed here so that snapshots are meaningful)
	a1, b1 := c12Operands(seed)
	if !proto.Equal(a0, a1) || !proto.Equal(b0, b1) {
		c.Violatef("combined-mutates-operand:"+op, nil, "%s changed one of its operands", op)
		return
	}
	type pair struct {
		name  string
		build func() (proto.Message, proto.Message)
	}
	// reorder result nodes so that index 0 is, in turn, each node (shared / only-in-A / only-in-B)
	rot := func(nl *sbom.NodeList, k int) *sbom.NodeList {
		if len(nl.Nodes) > 0 {
			k = k % len(nl.Nodes)
			nl.Nodes[0], nl.Nodes[k] = nl.Nodes[k], nl.Nodes[0]
		}
		if len(nl.Edges) > 0 {
			k = k % len(nl.Edges)
			nl.Edges[0], nl.Edges[k] = nl.Edges[k], nl.Edges[0]
		}
		return nl
	}
	for k := 0; k < 4; k++ {
		k := k
		for _, side := range []string{"A", "B"} {
			side := side
			// mutate the result, watch the operand
			ok := c12Independence(c, op+" result", func() (proto.Message, proto.Message) {
				a, b := c12Operands(seed)
				res := rot(apply(a, b), k)
				if side == "A" {
					return res, a
				}
				return res, b
			}, "result-shares-operand:"+op)
			if !ok {
				return
			}
			// mutate the operand, watch the result
			ok = c12Independence(c, op+" operand "+side, func() (proto.Message, proto.Message) {
				a, b := c12Operands(seed)
				res := apply(a, b)
				if side == "A" {
					return rot(a, k), res
				}
				return rot(b, k), res
			}, "result-shares-operand:"+op)
			if !ok {
				return
			}
		}
	}
}

type c12Result struct {
	desc string
	val  proto.Message
	snap proto.Message
}

func c12History(c *core.C) {
	r := c.R
	o := gen.DefaultPop()
	o.PFill = 0.7
	ids := []string{"a", "b", "c", "d", "e"}
	mk := func(r *rand.Rand, id string) *sbom.Node { return gen.Node(r, id, o) }
	var pool []*sbom.NodeList
	for i := 0; i < 3; i++ {
		pool = append(pool, spareList(gen.RandomNodeList(r, gen.GraphOpts{Universe: ids, EdgeTypes: c09Types, PNode: 0.7, PEdge: 0.25, PRoot: 0.4, NodeMaker: mk, SplitEdges: i == 2})))
	}
	var results []*c12Result
	trace := []string{}
	verify := func(step string) bool {
		for i, res := range results {
			c.Evals(1)
			if !proto.Equal(res.val, res.snap) {
				c.Violatef("history-result-altered:"+res.desc[:indexOrLen(res.desc, '(')]+"-by-"+step[:indexOrLen(step, '(')], map[string]any{"trace": trace},
					"result #%d (%s) was altered by the later call %s; history %v; %s", i, res.desc, step, trace, firstDiff(res.snap, res.val))
				return false
			}
		}
		return true
	}
	steps := 4 + r.Intn(11)
	for s := 0; s < steps; s++ {
		// candidates: operands and list-valued results
		lists := append([]*sbom.NodeList{}, pool...)
		for _, res := range results {
			if nl, ok := res.val.(*sbom.NodeList); ok {
				lists = append(lists, nl)
			}
		}
		ai, bi := r.Intn(len(lists)), r.Intn(len(lists))
		a, b := lists[ai], lists[bi]
		var step string
		var produced proto.Message
		bad := false
		switch r.Intn(12) {
		case 0, 1, 2:
			step = fmt.Sprintf("Union(%d,%d)", ai, bi)
			bad = guard(c, "Union", trace, func() { produced = a.Union(b) })
		case 3, 4:
			step = fmt.Sprintf("Intersect(%d,%d)", ai, bi)
			bad = guard(c, "Intersect", trace, func() { produced = a.Intersect(b) })
		case 5:
			step = fmt.Sprintf("NodeList.Copy(%d)", ai)
			bad = guard(c, "NodeList.Copy", trace, func() { produced = a.Copy() })
		case 6:
			if len(a.Nodes) == 0 {
				continue
			}
			step = fmt.Sprintf("Node.Copy(%d)", ai)
			bad = guard(c, "Node.Copy", trace, func() { produced = a.Nodes[r.Intn(len(a.Nodes))].Copy() })
		case 7:
			if len(a.Edges) == 0 {
				continue
			}
			step = fmt.Sprintf("Edge.Copy(%d)", ai)
			bad = guard(c, "Edge.Copy", trace, func() { produced = a.Edges[r.Intn(len(a.Edges))].Copy() })
		case 8:
			if ai == bi {
				continue
			}
			step = fmt.Sprintf("Add(%d,%d)", ai, bi)
			bad = guard(c, "Add", trace, func() { a.Add(b) })
		case 9:
			step = fmt.Sprintf("RemoveNodes(%d)", ai)
			bad = guard(c, "RemoveNodes", trace, func() { a.RemoveNodes([]string{gen.Pick(r, ids)}) })
		case 11:
			step = fmt.Sprintf("RootAdded(%d)", ai)
			bad = guard(c, "AddRootNode", trace, func() { a.AddRootNode(mk(r, fmt.Sprintf("extra%d", s))) })
		case 10:
			step = fmt.Sprintf("RelateNodeAtID(%d)", ai)
			bad = guard(c, "RelateNodeAtID", trace, func() { _ = a.RelateNodeAtID(mk(r, "fresh"), gen.Pick(r, ids), sbom.Edge_contains) })
		}
		if bad {
			return
		}
		trace = append(trace, step)
		// a result that was deliberately mutated in place stops being a monitored result (it becomes an operand)
		if step[0] == 'A' || step[0] == 'R' {
			kept := results[:0]
			for _, res := range results {
				// the receiver was changed on purpose; the argument of an in-place Add is aliased by it from now on
				// (Add appends the argument's node pointers - not a copy or a union/intersection result, so outside the statement)
				if nl, ok := res.val.(*sbom.NodeList); ok && (nl == a || (strings.HasPrefix(step, "Add(") && nl == b)) {
					pool = append(pool, nl)
					continue
				}
				kept = append(kept, res)
			}
			results = kept
		}
		if !verify(step) {
			return
		}
		if produced != nil && !isNilMsg(produced) {
			results = append(results, &c12Result{desc: step, val: produced, snap: proto.Clone(produced)})
		}
	}
	if len(results) >= 2 {
		c.DistinctStr(fmt.Sprint(trace, gen.Canon(pool[0])))
		c.Cover("histories-with->=2-results")
	}
	if c.WantSample() {
		c.Sample(map[string]any{"kind": "history", "trace": trace})
	}
}

func isNilMsg(m proto.Message) bool {
	return m == nil || !m.ProtoReflect().IsValid()
}

func indexOrLen(s string, ch byte) int {
	for i := 0; i < len(s); i++ {
		if s[i] == ch {
			return i
		}
	}
	return len(s)
}

var _ protoreflect.Message
