package props

import (
	"encoding/base64"
	"encoding/json"
	"flag"
	"fmt"
	"os"
	"os/exec"
	"strings"
	"sync"
	"syscall"

	"github.com/protobom/protobom/pkg/reader"
	"github.com/protobom/protobom/pkg/sbom"
	"github.com/protobom/protobom/pkg/storage"
	"github.com/protobom/protobom/pkg/writer"
	"google.golang.org/protobuf/proto"
	"verifharness/internal/core"
)

// Child processes for the storage properties (C19, C20): one Store or one Retrieve per process, executed
// through the public FileSystem backend, optionally as an unprivileged uid and under the ptrace injector.

func init() {
	extraCmds["storeone"] = cmdStoreOne
	extraCmds["retrieveone"] = cmdRetrieveOne
	extraCmds["storehist"] = cmdStoreHist
	extraCmds["noop"] = func([]string) int { fmt.Println("OK"); return 0 }
}

// unprivPreflight starts one child as the unprivileged uid that does nothing. When even that child cannot be
// started (the harness sits in a place that uid cannot reach, or the sandbox refuses setuid), the case is
// inconclusive: nothing of the library would run in the children of this case.
func unprivPreflight(c *core.C) bool {
	if o := runChild(true, "noop"); o.kind != "OK" {
		c.Violatef("harness-unpriv-child", nil, "cannot run a child process as uid %d: %s %s", unprivUID, o.kind, o.msg)
		return false
	}
	return true
}

// histStep is one call of an in-process history (one FileSystem instance for the whole history).
type histStep struct {
	Op        string   `json:"op"` // store | retrieve
	File      string   `json:"file"`
	NoClobber bool     `json:"noclobber,omitempty"`
	NilOpts   bool     `json:"nilopts,omitempty"`
	Second    bool     `json:"second,omitempty"` // use a second FileSystem instance on the same directory
	Dir       string   `json:"dir,omitempty"`    // configure the instance with this directory before the call
	Files     []string `json:"files,omitempty"`  // op pstore: documents stored by concurrent calls on the one instance
}

func cmdStoreHist(args []string) int {
	fs := flag.NewFlagSet("storehist", flag.ExitOnError)
	dir := fs.String("dir", "", "")
	script := fs.String("script", "", "")
	_ = fs.Parse(args)
	sb, err := os.ReadFile(*script)
	if err != nil {
		fmt.Println("HARNESS cannot read script:", err)
		return 3
	}
	var steps []histStep
	if err := json.Unmarshal(sb, &steps); err != nil {
		fmt.Println("HARNESS bad script:", err)
		return 3
	}
	be, be2 := storage.NewFileSystem(), storage.NewFileSystem()
	be.Options.Path, be2.Options.Path = *dir, *dir
	for i, st := range steps {
		inst := be
		if st.Op == "pstore" {
			// documents with different identifiers stored by overlapping calls on one instance
			fmt.Printf("STEP %d BEGIN\n", i)
			docs := make([]*sbom.Document, len(st.Files))
			for j, f := range st.Files {
				b, err := os.ReadFile(f)
				docs[j] = &sbom.Document{}
				if err != nil || proto.Unmarshal(b, docs[j]) != nil {
					fmt.Println("HARNESS cannot decode docfile")
					return 3
				}
			}
			errs := make([]error, len(docs))
			var wg, start sync.WaitGroup
			start.Add(1)
			for j := range docs {
				wg.Add(1)
				go func(j int) {
					defer wg.Done()
					start.Wait()
					errs[j] = inst.Store(docs[j], &storage.StoreOptions{})
				}(j)
			}
			start.Done()
			wg.Wait()
			res := "OK"
			for _, e := range errs {
				if e != nil {
					res = "ERR " + strings.ReplaceAll(e.Error(), "\n", " ")
				}
			}
			fmt.Println(res)
			continue
		}
		b, err := os.ReadFile(st.File)
		if err != nil {
			fmt.Println("HARNESS cannot read", st.File)
			return 3
		}
		if st.Second {
			inst = be2
		}
		if st.Dir != "" {
			inst.Options.Path = st.Dir
		}
		fmt.Printf("STEP %d BEGIN\n", i)
		switch st.Op {
		case "store":
			doc := &sbom.Document{}
			if err := proto.Unmarshal(b, doc); err != nil {
				fmt.Println("HARNESS cannot decode docfile")
				return 3
			}
			var opts *storage.StoreOptions
			if !st.NilOpts {
				opts = &storage.StoreOptions{NoClobber: st.NoClobber}
			}
			if err := inst.Store(doc, opts); err != nil {
				fmt.Println("ERR", err)
			} else {
				fmt.Println("OK")
			}
		case "retrieve":
			doc, err := inst.Retrieve(string(b), &storage.RetrieveOptions{})
			switch {
			case err != nil && doc != nil:
				fmt.Println("BOTH", err)
			case err != nil:
				fmt.Println("ERR", strings.ReplaceAll(err.Error(), "\n", " "))
			case doc == nil:
				fmt.Println("NEITHER")
			default:
				mb, _ := proto.Marshal(doc)
				fmt.Println("DOC", base64.StdEncoding.EncodeToString(mb))
			}
		}
	}
	fmt.Println("HISTORY-END")
	return 0
}

func cmdStoreOne(args []string) int {
	fs := flag.NewFlagSet("storeone", flag.ExitOnError)
	dir := fs.String("dir", "", "")
	docfile := fs.String("docfile", "", "")
	noclobber := fs.Bool("noclobber", false, "")
	nilopts := fs.Bool("nilopts", false, "")
	api := fs.Bool("api", false, "go through writer.Writer.Store instead of the backend directly")
	_ = fs.Parse(args)
	b, err := os.ReadFile(*docfile)
	if err != nil {
		fmt.Println("HARNESS cannot read docfile:", err)
		return 3
	}
	doc := &sbom.Document{}
	if err := proto.Unmarshal(b, doc); err != nil {
		fmt.Println("HARNESS cannot decode docfile:", err)
		return 3
	}
	be := storage.NewFileSystem()
	be.Options.Path = *dir
	var opts *storage.StoreOptions
	if !*nilopts {
		opts = &storage.StoreOptions{NoClobber: *noclobber}
	}
	if *api {
		wopts := []writer.WriterOption{writer.WithStoreRetriever(be)}
		if opts != nil {
			wopts = append(wopts, writer.WithStoreOptions(opts))
		}
		if err := writer.New(wopts...).Store(doc); err != nil {
			fmt.Println("ERR", err)
			return 1
		}
		fmt.Println("OK")
		return 0
	}
	if err := be.Store(doc, opts); err != nil {
		fmt.Println("ERR", err)
		return 1
	}
	fmt.Println("OK")
	return 0
}

func cmdRetrieveOne(args []string) int {
	fs := flag.NewFlagSet("retrieveone", flag.ExitOnError)
	dir := fs.String("dir", "", "")
	idfile := fs.String("idfile", "", "")
	api := fs.Bool("api", false, "go through reader.Reader.Retrieve instead of the backend directly")
	_ = fs.Parse(args)
	idb, err := os.ReadFile(*idfile)
	if err != nil {
		fmt.Println("HARNESS cannot read idfile:", err)
		return 3
	}
	be := storage.NewFileSystem()
	be.Options.Path = *dir
	var doc *sbom.Document
	if *api {
		doc, err = reader.New(reader.WithStoreRetriever(be), reader.WithRetrieveOptions(&storage.RetrieveOptions{})).Retrieve(string(idb))
	} else {
		doc, err = be.Retrieve(string(idb), &storage.RetrieveOptions{})
	}
	switch {
	case err != nil && doc != nil:
		fmt.Println("BOTH", err)
	case err != nil:
		fmt.Println("ERR", err)
	case doc == nil:
		fmt.Println("NEITHER")
	default:
		b, merr := proto.Marshal(doc)
		if merr != nil {
			fmt.Println("HARNESS cannot marshal result:", merr)
			return 3
		}
		fmt.Println("DOC", base64.StdEncoding.EncodeToString(b))
	}
	return 0
}

const unprivUID = 65534

// childCmd builds the command for a storage child running as the unprivileged uid.
func childCmd(unpriv bool, args ...string) *exec.Cmd {
	exe := os.Getenv("VCHECK_CHILD_EXE")
	if exe == "" {
		exe, _ = os.Executable()
	}
	cmd := exec.Command(exe, args...)
	cmd.Env = []string{"PATH=/usr/bin:/bin", "HOME=/nonexistent", "GOTRACEBACK=single"}
	if unpriv {
		cmd.SysProcAttr = &syscall.SysProcAttr{Credential: &syscall.Credential{Uid: unprivUID, Gid: unprivUID}}
	}
	return cmd
}

type childOut struct {
	kind string // OK | ERR | DOC | BOTH | NEITHER | DIED | HARNESS
	msg  string
	doc  *sbom.Document
	exit int
}

func parseChildOutput(out []byte, exit int, runErr error) childOut {
	for _, ln := range strings.Split(string(out), "\n") {
		f := strings.SplitN(ln, " ", 2)
		rest := ""
		if len(f) > 1 {
			rest = f[1]
		}
		switch f[0] {
		case "OK":
			return childOut{kind: "OK", exit: exit}
		case "ERR":
			return childOut{kind: "ERR", msg: rest, exit: exit}
		case "BOTH":
			return childOut{kind: "BOTH", msg: rest, exit: exit}
		case "NEITHER":
			return childOut{kind: "NEITHER", exit: exit}
		case "HARNESS":
			return childOut{kind: "HARNESS", msg: rest, exit: exit}
		case "DOC":
			b, err := base64.StdEncoding.DecodeString(strings.TrimSpace(rest))
			d := &sbom.Document{}
			if err != nil || proto.Unmarshal(b, d) != nil {
				return childOut{kind: "HARNESS", msg: "undecodable DOC line", exit: exit}
			}
			return childOut{kind: "DOC", doc: d, exit: exit}
		}
	}
	msg := strings.TrimSpace(string(out))
	if len(msg) > 400 {
		msg = msg[:400]
	}
	if _, exited := runErr.(*exec.ExitError); runErr != nil && !exited {
		// the child was never started (fork/exec failed): nothing of the library ran
		return childOut{kind: "HARNESS", msg: fmt.Sprintf("child not started: %v", runErr), exit: exit}
	}
	return childOut{kind: "DIED", msg: fmt.Sprintf("exit %d (%v): %s", exit, runErr, msg), exit: exit}
}

// runChild runs a storage child to completion (no tracer).
func runChild(unpriv bool, args ...string) childOut {
	cmd := childCmd(unpriv, args...)
	out, err := cmd.CombinedOutput()
	exit := 0
	if cmd.ProcessState != nil {
		exit = cmd.ProcessState.ExitCode()
	}
	return parseChildOutput(out, exit, err)
}
