package props

import (
	"fmt"
	"google.golang.org/protobuf/proto"
	"math/rand"

	"github.com/protobom/protobom/pkg/sbom"
	"verifharness/internal/core"
	"verifharness/internal/gen"
)

// C09 — Union and in-place Add against the set model and the attribute precedence rule.

var c09IDs = []string{"a", "b", "c", "d", "e"}
var c09Types = []sbom.Edge_Type{sbom.Edge_contains, sbom.Edge_dependsOn}

// c09Universe picks the identifier universe and edge types of a case: a quarter use plain letters and two edge types, a quarter adds the zero-valued edge type, one
// quarter identifiers that contain a separator character, and one quarter uses identifiers and type numbers that glue together alike ("a1"+"1" == "a"+"11",
// "a1"+"12" == "a11"+"2"), on which keys built by concatenating source, type and target collide.
func c09Universe(k int) string {
	if (k/2)%4 == 1 {
		c09IDs = []string{"a", "a1", "a11", "1", "11"}
		c09Types = []sbom.Edge_Type{1, 2, 11, 12}
		return "universe:identifiers-and-type-numbers-that-concatenate-alike"
	}
	if (k/2)%4 == 3 {
		// identifiers that contain a separator character: "a"+sep+"b<sep>c" == "a<sep>b"+sep+"c"
		sep := []string{":", "/", "-", "|", ",", ".", "+", " ", "->", "_"}[(k/8)%10]
		c09IDs = []string{"a", "a" + sep + "b", "b", "b" + sep + "c", "c"}
		c09Types = []sbom.Edge_Type{sbom.Edge_contains, sbom.Edge_dependsOn}
		return "universe:identifiers-containing-a-separator-character"
	}
	c09IDs = []string{"a", "b", "c", "d", "e"}
	if (k/2)%4 == 2 {
		// the enumeration's zero value ("unknown") is an edge type like any other
		c09Types = []sbom.Edge_Type{sbom.Edge_UNKNOWN, sbom.Edge_contains, sbom.Edge_dependsOn}
		return "universe:edge-types-including-the-zero-value"
	}
	c09Types = []sbom.Edge_Type{sbom.Edge_contains, sbom.Edge_dependsOn}
	return "universe:plain"
}

func c09List(r *rand.Rand, illFormed bool, attrs bool) *sbom.NodeList {
	o := gen.GraphOpts{Universe: c09IDs, EdgeTypes: c09Types, PNode: 0.2 + 0.7*r.Float64(), PEdge: 0.25 * r.Float64(), PRoot: 0.5 * r.Float64(), IllFormed: illFormed}
	if attrs {
		o.NodeMaker = attrNodeMaker
	}
	switch r.Intn(12) {
	case 0:
		return &sbom.NodeList{}
	case 1:
		return sbom.NewNodeList()
	}
	return gen.RandomNodeList(r, o)
}

// unionModel: the three sets the statement prescribes.
func unionModel(a, b *sbom.NodeList) (ids, roots, triples gen.Set) {
	ids = gen.Union(gen.IDSet(a), gen.IDSet(b))
	roots = gen.Union(gen.RootSet(a), gen.RootSet(b))
	triples = gen.Union(gen.TriplesAmong(a, ids), gen.TriplesAmong(b, ids))
	return
}

func c09CheckSets(c *core.C, what string, got *sbom.NodeList, ids, roots, triples gen.Set, detail map[string]any) bool {
	c.Evals(1)
	if got == nil {
		c.Violatef(what+"-nil", detail, "%s returned nil", what)
		return false
	}
	gi := gen.IDSet(got)
	switch {
	case !gi.Equal(ids) || len(got.Nodes) != len(ids):
		c.Violatef(what+"-nodes", detail, "%s: nodes %s (%d entries), model %s; operands %v", what, gi, len(got.Nodes), ids, detail)
	case !gen.RootSet(got).Equal(roots):
		c.Violatef(what+"-roots", detail, "%s: roots %s, model %s; operands %v", what, gen.RootSet(got), roots, detail)
	case !gen.TripleSet(got).Equal(triples):
		c.Violatef(what+"-edges", detail, "%s: edges %s, model %s; operands %v", what, gen.TripleSet(got), triples, detail)
	default:
		return true
	}
	return false
}

func init() {
	core.Register(&core.Prop{
		ID: "C09", Level: "exploration",
		Rule: "each case draws node lists A,B,C over a 5-id universe and 2 edge types (a quarter of the cases: identifiers and type numbers that concatenate alike, 4 edge types; a quarter: identifiers containing separator characters; a quarter: the zero-valued edge type UNKNOWN among the types; case parity decides whether ill-formed operands - dangling edges/roots, several edges per source/type, repeated targets - are allowed; " +
			"shared nodes carry reflection-populated attributes, each field independently empty or not). Monitored: Union(A,B) and Add against the set model (ids, roots, edge triples restricted to present nodes), " +
			"idempotence, commutativity, identity, associativity (where the model itself is associative, i.e. always for well-formed operands), attribute precedence per schema field for every shared node " +
			"(Union: argument wins when non-empty; Add: receiver wins when non-empty). Operands and every returned result are compared with their snapshots at the end of the case (after sibling unions off the same receiver and an in-place Add onto an earlier result). distinct = hash of canonical (A,B); non-trivial = A and B share at least one node or both have edges.",
		Assumptions: []string{"node ids are unique within one operand", "list-valued attributes are compared as multisets", "the node kind is judged only where the statement's rule and the behaviour pinned by TestUpdate/TestAugment (the node already in the list keeps its kind) coincide"},
		NCases: func(tier string) int {
			if tier == "thorough" {
				return 1000000
			}
			return 60000
		},
		Case: c09Case,
	})
}

func c09Case(c *core.C) {
	r := c.R
	c.Cover(c09Universe(c.K))
	ill := c.K%2 == 1
	A, B, C := c09List(r, ill, true), c09List(r, ill, true), c09List(r, ill, false)
	if c.K%7 == 3 && len(A.Nodes) > 0 {
		// near-equal operands: B is A in another presentation, shared nodes differing only in sub-second date parts
		B = gen.ShuffledPresentation(r, A)
		for i, n := range B.Nodes {
			B.Nodes[i] = permuteNode(r, n)
			for _, t := range []**timestampT{&B.Nodes[i].ReleaseDate, &B.Nodes[i].BuildDate, &B.Nodes[i].ValidUntilDate} {
				if *t != nil {
					(*t).Nanos = int32(r.Intn(1000000000))
				}
			}
		}
		c.Cover("operands:near-equal")
	}
	det := map[string]any{"A": gen.Canon(A), "B": gen.Canon(B)}
	a0, b0, c0 := gen.Clone(A), gen.Clone(B), gen.Clone(C)
	// every call below works on the SAME operand values (as a caller's would): an operand that an earlier call
	// changed shows in the later results, and is compared with its snapshot at the end
	defer func() {
		for _, o := range []struct {
			name      string
			now, then *sbom.NodeList
		}{{"A", A, a0}, {"B", B, b0}, {"C", C, c0}} {
			if !proto.Equal(o.now, o.then) {
				c.Violatef("union-changed-its-operand", det0(A, B), "after the unions of this case operand %s is no longer what it was: %s became %s", o.name, gen.Canon(o.then), gen.Canon(o.now))
				return
			}
		}
	}()
	// every result is a value of its own: what is computed later from the same operands must not change it
	type kept struct {
		name      string
		now, then *sbom.NodeList
	}
	var results []kept
	retain := func(name string, res *sbom.NodeList) {
		if res != nil {
			results = append(results, kept{name, res, gen.Clone(res)})
		}
	}
	defer func() {
		for _, o := range results {
			if !proto.Equal(o.now, o.then) {
				c.Violatef("union-result-changed-later", det3of(A, B, C), "the result of %s was %s when it was returned and is %s after the later unions of this case", o.name, gen.Canon(o.then), gen.Canon(o.now))
				return
			}
		}
	}()
	shared := gen.Inter(gen.IDSet(A), gen.IDSet(B))
	if len(shared) > 0 || (len(A.Edges) > 0 && len(B.Edges) > 0) {
		c.DistinctStr(gen.Canon(A) + "|" + gen.Canon(B))
	}
	if ill {
		c.Cover("operands:ill-formed-allowed")
	} else {
		c.Cover("operands:well-formed")
	}
	if c.WantSample() && len(shared) > 0 && len(A.Edges) > 0 {
		c.Sample(map[string]any{"A": gen.Canon(A), "B": gen.Canon(B), "shared": shared.Keys()})
	}
	var U *sbom.NodeList
	if guard(c, "Union", det, func() { U = A.Union(B) }) {
		return
	}
	ids, roots, triples := unionModel(A, B)
	if !c09CheckSets(c, "union", U, ids, roots, triples, det) {
		return
	}
	retain("A.Union(B)", U)
	// attribute precedence for shared nodes: B's value when non-empty, else A's
	for id := range shared {
		c.Evals(1)
		c.Cover("shared-node-attribute-checks")
		if f, why := precedenceCheck(nodeByID(U, id), nodeByID(b0, id), nodeByID(a0, id)); why != "" {
			c.Violatef("union-attr-"+f, det, "Union: shared node %s: %s", id, why)
			return
		}
		if why := kindCheck(nodeByID(U, id), nodeByID(b0, id), nodeByID(a0, id), nodeByID(a0, id)); why != "" {
			c.Violatef("union-attr-type", det, "Union: shared node %s: %s", id, why)
			return
		}
	}
	// nodes only in one operand keep their attributes
	for _, n := range U.Nodes {
		if shared.Has(n.Id) {
			continue
		}
		src := nodeByID(a0, n.Id)
		if src == nil {
			src = nodeByID(b0, n.Id)
		}
		if f, why := precedenceCheck(n, src, src); why != "" {
			c.Violatef("union-unshared-attr-"+f, det, "Union: node %s present in one operand changed: %s", n.Id, why)
			return
		}
		if n.Type != src.Type {
			c.Violatef("union-unshared-attr-type", det, "Union: node %s present in one operand changed its kind from %s to %s", n.Id, src.Type, n.Type)
			return
		}
	}
	// laws on the three sets
	var AA, BA, AE, EA *sbom.NodeList
	empty := &sbom.NodeList{}
	if guard(c, "Union", det, func() {
		AA = A.Union(A)
		BA = B.Union(A)
		AE = A.Union(empty)
		EA = (&sbom.NodeList{}).Union(A)
	}) {
		return
	}
	retain("A.Union(A)", AA)
	retain("B.Union(A)", BA)
	retain("(empty).Union(A)", EA)
	ia, ra, ta := unionModel(A, A)
	c.Cover("law:idempotence")
	if !c09CheckSets(c, "union-idempotence", AA, ia, ra, ta, det) {
		return
	}
	c.Cover("law:commutativity")
	if !c09CheckSets(c, "union-commutativity", BA, gen.IDSet(U), gen.RootSet(U), gen.TripleSet(U), det) {
		return
	}
	c.Cover("law:identity")
	if !c09CheckSets(c, "union-identity-right", AE, ia, ra, ta, det) || !c09CheckSets(c, "union-identity-left", EA, ia, ra, ta, det) {
		return
	}
	// associativity: judged whenever the model is associative on these operands (always when well-formed)
	det3 := map[string]any{"A": gen.Canon(A), "B": gen.Canon(B), "C": gen.Canon(C)}
	var L, R *sbom.NodeList
	if guard(c, "Union", det3, func() {
		L = A.Union(B).Union(C)
		R = A.Union(B.Union(C))
	}) {
		return
	}
	retain("A.Union(B).Union(C)", L)
	retain("A.Union(B.Union(C))", R)
	// a sibling result off the same receiver, and an in-place extension of another one
	var AC *sbom.NodeList
	ae0 := gen.Clone(AE)
	if guard(c, "Union", det3, func() {
		AC = A.Union(C)
		AE.Add(C)
	}) {
		return
	}
	c.Cover("sibling-results-of-one-receiver")
	{
		si, sr, st := unionModel(A, C)
		ei, er, et := unionModel(ae0, C) // the model on the value the Add started from (an ill-formed A lost its dangling edges in the union)
		if !c09CheckSets(c, "union-sibling", AC, si, sr, st, det3) || !c09CheckSets(c, "add-onto-union-with-empty", AE, ei, er, et, det3) {
			return
		}
		retain("A.Union(C)", AC)
	}
	mAB := modelList(A, B)
	mBC := modelList(B, C)
	li, lr, lt := unionModel(mAB, C)
	ri, rr, rt := unionModel(A, mBC)
	if li.Equal(ri) && lr.Equal(rr) && lt.Equal(rt) {
		c.Cover("law:associativity")
		if !c09CheckSets(c, "union-associativity-left", L, li, lr, lt, det3) || !c09CheckSets(c, "union-associativity-right", R, ri, rr, rt, det3) {
			return
		}
	} else {
		c.Cover("law:associativity-not-applicable(ill-formed)")
		if !ill {
			c.Violatef("harness-model-not-associative", det3, "model not associative on well-formed operands")
		}
	}

	// in-place Add: same sets, receiver wins when non-empty
	recv := gen.Clone(A)
	if guard(c, "Add", det, func() { recv.Add(B) }) {
		return
	}
	c.Cover("op:Add")
	if !c09CheckSets(c, "add", recv, ids, roots, triples, det) {
		return
	}
	for id := range shared {
		c.Evals(1)
		if f, why := precedenceCheck(nodeByID(recv, id), nodeByID(a0, id), nodeByID(b0, id)); why != "" {
			c.Violatef("add-attr-"+f, det, "Add: shared node %s: %s", id, why)
			return
		}
		if why := kindCheck(nodeByID(recv, id), nodeByID(a0, id), nodeByID(b0, id), nodeByID(a0, id)); why != "" {
			c.Violatef("add-attr-type", det, "Add: shared node %s: %s", id, why)
			return
		}
	}
}

// modelList materialises the model's union as a node list (for nesting the model).
func modelList(a, b *sbom.NodeList) *sbom.NodeList {
	ids, roots, _ := unionModel(a, b)
	nl := &sbom.NodeList{}
	for _, id := range ids.Keys() {
		nl.Nodes = append(nl.Nodes, &sbom.Node{Id: id})
	}
	for _, src := range []*sbom.NodeList{a, b} {
		for _, e := range src.Edges {
			if !ids.Has(e.From) {
				continue
			}
			for _, t := range e.To {
				if ids.Has(t) {
					nl.Edges = append(nl.Edges, &sbom.Edge{From: e.From, Type: e.Type, To: []string{t}})
				}
			}
		}
	}
	nl.RootElements = roots.Keys()
	return nl
}

var _ = fmt.Sprint

func det3of(a, b, c *sbom.NodeList) map[string]any {
	return map[string]any{"A": gen.Canon(a), "B": gen.Canon(b), "C": gen.Canon(c)}
}

func det0(a, b *sbom.NodeList) map[string]any {
	return map[string]any{"A": gen.Canon(a), "B": gen.Canon(b)}
}
