package props

import (
	"bytes"
	"sync"

	"github.com/protobom/protobom/pkg/formats"
	"github.com/protobom/protobom/pkg/native"
	"github.com/protobom/protobom/pkg/reader"
	"github.com/protobom/protobom/pkg/sbom"
	"github.com/protobom/protobom/pkg/writer"
)

// Boundary helpers: everything goes through the public writer.Writer / reader.Reader API.

var (
	ioOnce sync.Once
	ioW    *writer.Writer
	ioR    *reader.Reader
)

func ioInit() {
	ioOnce.Do(func() {
		ioW = writer.New()
		ioR = reader.New()
	})
}

func writeDoc(doc *sbom.Document, f formats.Format, indent int) ([]byte, error) {
	ioInit()
	var buf bytes.Buffer
	err := ioW.WriteStreamWithOptions(doc, nopWC{&buf}, &writer.Options{
		Format: f, RenderOptions: &native.RenderOptions{Indent: indent}, SerializeOptions: &native.SerializeOptions{},
	})
	return buf.Bytes(), err
}

func parseAuto(b []byte) (*sbom.Document, error) {
	ioInit()
	return ioR.ParseStream(bytes.NewReader(b))
}

func parseAs(b []byte, f formats.Format) (*sbom.Document, error) {
	ioInit()
	return ioR.ParseStreamWithOptions(bytes.NewReader(b), &reader.Options{Format: f, UnserializeOptions: &native.UnserializeOptions{}})
}
