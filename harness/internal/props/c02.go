package props

import (
	"fmt"
	"sort"
	"strings"

	"github.com/protobom/protobom/pkg/formats"
	"github.com/protobom/protobom/pkg/sbom"
	"verifharness/internal/core"
	"verifharness/internal/gen"
)

// C02 — CycloneDX 1.4 / 1.5 write→read round trip of single-rooted containment trees.

var cdxAlgoSet = func() map[int32]bool {
	m := map[int32]bool{}
	for _, a := range gen.CDXHashAlgos {
		m[int32(a)] = true
	}
	return m
}()

func cdxProj(n *sbom.Node) map[string]string {
	m := map[string]string{}
	m["kind"] = n.Type.String()
	m["name"] = n.Name
	m["version"] = n.Version
	m["description"] = n.Description
	m["copyright"] = n.Copyright
	if n.Type == sbom.Node_PACKAGE {
		ps := []string{}
		for _, p := range n.PrimaryPurpose {
			ps = append(ps, p.String())
		}
		m["component_type"] = strings.Join(ps, ",")
	}
	hs := []string{}
	for a, v := range n.Hashes {
		if cdxAlgoSet[a] {
			hs = append(hs, fmt.Sprintf("%d=%s", a, v))
		}
	}
	m["hashes"] = sortedJoin(hs)
	m["purl"] = n.Identifiers[int32(sbom.SoftwareIdentifierType_PURL)]
	cpe := n.Identifiers[int32(sbom.SoftwareIdentifierType_CPE23)]
	if cpe == "" {
		cpe = n.Identifiers[int32(sbom.SoftwareIdentifierType_CPE22)]
	}
	m["cpe"] = cpe
	m["licenses"] = sortedJoin(n.Licenses)
	ers := []string{}
	for _, e := range n.ExternalReferences {
		hh := []string{}
		for a, v := range e.Hashes {
			if cdxAlgoSet[a] { // an algorithm CycloneDX has no name for cannot survive; the rest of the reference must
				hh = append(hh, fmt.Sprintf("%d=%s", a, v))
			}
		}
		ers = append(ers, fmt.Sprintf("%d|%s|%s|%s", e.Type, e.Url, e.Comment, sortedJoin(hh)))
	}
	m["external_references"] = sortedJoin(ers)
	return m
}

// parentMap derives the containment parent of every node from the contains edges; err describes a non-tree.
func parentMap(nl *sbom.NodeList) (map[string]string, string) {
	pm := map[string]string{}
	for _, e := range nl.Edges {
		if e.Type != sbom.Edge_contains {
			continue
		}
		for _, t := range e.To {
			if p, ok := pm[t]; ok && p != e.From {
				return pm, fmt.Sprintf("node %q has two parents (%q and %q)", t, p, e.From)
			}
			pm[t] = e.From
		}
	}
	return pm, ""
}

func lifecycleProj(md *sbom.Metadata) string {
	var out []string
	for _, dt := range md.DocumentTypes {
		if dt.Type != nil {
			out = append(out, "phase:"+dt.Type.String())
		} else {
			out = append(out, fmt.Sprintf("custom:%s|%s", dt.GetName(), dt.GetDescription()))
		}
	}
	sort.Strings(out)
	return strings.Join(out, ";")
}

func compareCDX(in, out *sbom.Document, ver int) (sig, msg string) {
	sig, msg, _ = compareCDXkf(in, out, ver)
	return
}

// compareCDXkf also returns the witness of the known finding cdx-reader-first-licence-only (which does not stop the comparison).
func compareCDXkf(in, out *sbom.Document, ver int) (sig, msg, kf string) {
	if out == nil || out.NodeList == nil || out.Metadata == nil {
		return "no-nodelist", "parsed document lacks node list or metadata", kf
	}
	inIDs, outIDs := gen.IDSet(in.NodeList), gen.IDSet(out.NodeList)
	if !inIDs.Equal(outIDs) || len(out.NodeList.Nodes) != len(in.NodeList.Nodes) {
		return "node-set", fmt.Sprintf("node set differs: missing %s, extra %s (%d written, %d read)", gen.Minus(inIDs, outIDs), gen.Minus(outIDs, inIDs), len(in.NodeList.Nodes), len(out.NodeList.Nodes)), kf
	}
	if !gen.RootSet(in.NodeList).Equal(gen.RootSet(out.NodeList)) {
		return "root-set", fmt.Sprintf("root differs: %s vs %s", gen.RootSet(in.NodeList), gen.RootSet(out.NodeList)), kf
	}
	pin, _ := parentMap(in.NodeList)
	pout, bad := parentMap(out.NodeList)
	if bad != "" {
		return "tree-not-a-tree", "read-back containment is not a tree: " + bad, kf
	}
	for id, p := range pin {
		if pout[id] != p {
			return "tree-parent", fmt.Sprintf("containment tree differs: node %q was under %q, is now under %q", id, p, pout[id]), kf
		}
	}
	if len(pout) != len(pin) {
		return "tree-parent", fmt.Sprintf("containment tree differs: %d parent links written, %d read", len(pin), len(pout)), kf
	}
	for _, n := range in.NodeList.Nodes {
		o := nodeByID(out.NodeList, n.Id)
		pi, po := cdxProj(n), cdxProj(o)
		keys := []string{}
		for k := range pi {
			keys = append(keys, k)
		}
		sort.Strings(keys)
		for _, k := range keys {
			if pi[k] != po[k] {
				if k == "licenses" && len(n.Licenses) >= 2 && len(o.Licenses) == 1 && o.Licenses[0] == n.Licenses[0] {
					// narrow signature of the known finding: exactly the first written entry survives
					kf = fmt.Sprintf("node %q: licences written %q, read back %q (the reader stops after the first entry)", n.Id, n.Licenses, o.Licenses)
					continue
				}
				return "attr-" + k, fmt.Sprintf("node %q: %s written %s, read back %s", n.Id, k, pi[k], po[k]), kf
			}
		}
	}
	if in.Metadata.Id != out.Metadata.Id {
		return "serial-number", fmt.Sprintf("serial number %q read back as %q", in.Metadata.Id, out.Metadata.Id), kf
	}
	if in.Metadata.Version != out.Metadata.Version {
		return "doc-version", fmt.Sprintf("document version %q read back as %q", in.Metadata.Version, out.Metadata.Version), kf
	}
	if ver == 15 && lifecycleProj(in.Metadata) != lifecycleProj(out.Metadata) {
		return "lifecycles", fmt.Sprintf("lifecycles %q read back as %q", lifecycleProj(in.Metadata), lifecycleProj(out.Metadata)), kf
	}
	return "", "", kf
}

func init() {
	core.Register(&core.Prop{
		ID: "C02", Level: "exploration",
		Rule: "case k draws a single-rooted containment tree (k mod 3: random / deep chain-like / wide star-like; <=10 nodes quick, <=30 thorough; edges stored grouped or split), version 1.4 for even k and 1.5 for odd k, " +
			"component type, hash algorithm and external-reference type number k forced on the root (harness's own per-version tables), every CycloneDX-expressible attribute independently present, unicode text; " +
			"the stored edge list is then written in EVERY permutation when it has <=4 edges (thorough: <=5) and in 4 PRNG-chosen permutations otherwise; each output is read back and compared through the projection " +
			"(node set, root, parent map, per-node attributes, serial number, version, lifecycles at 1.5); a second pass must change nothing. A quarter of the documents use short identifiers over {a,1,-} that are prefixes, suffixes and concatenations of one another; a quarter of the external-reference lists repeat an entry with other hashes or another comment. distinct = hash of (written bytes); non-trivial = tree depth >=3.",
		Assumptions: []string{"exactly one native purpose per package node; FILE nodes carry purpose FILE or none; one CPE per node; Metadata.name empty; licence entries are ids; ids unique, non-empty, not starting with protobom-", "license_concluded, suppliers, originators are not compared (not in the statement's attribute list)"},
		NCases: func(tier string) int {
			if tier == "thorough" {
				return 120000
			}
			return 6000
		},
		Case: c02Case,
	})
}

func treeDepth(pm map[string]string, id string) int {
	d := 1
	for {
		p, ok := pm[id]
		if !ok || d > 1000 {
			return d
		}
		id = p
		d++
	}
}

func c02Case(c *core.C) {
	r := c.R
	ver := 14
	f := formats.CDX14JSON
	if c.K%2 == 1 {
		ver, f = 15, formats.CDX15JSON
	}
	maxNodes := 10
	if c.Thorough() {
		maxNodes = 30
	}
	if c.K%7 == 0 {
		maxNodes = 5 // small trees: all permutations of the edge list
	}
	doc, parent, shape := gen.CDXTree(r, c.K/2, ver, maxNodes)
	c.Cover("shape:" + shape)
	if gen.IsRelatedIDs(doc.NodeList) {
		c.Cover("identifiers:short-and-related(prefixes, suffixes, concatenations of one another)")
	}
	c.Cover(fmt.Sprintf("version:1.%d", ver-10))
	depth := 0
	for id := range parent {
		if d := treeDepth(parent, id); d > depth {
			depth = d
		}
	}
	c.Cover(fmt.Sprintf("depth:%d", min(depth, 9)))
	edges := doc.NodeList.Edges
	limit := 4
	if c.Thorough() {
		limit = 5
	}
	var orders [][]int
	if len(edges) <= limit {
		orders = gen.Permutations(len(edges))
		c.Cover("all-permutations-of-edge-list")
	} else {
		id := make([]int, len(edges))
		for i := range id {
			id[i] = i
		}
		rev := make([]int, len(edges))
		for i := range rev {
			rev[i] = len(edges) - 1 - i
		}
		orders = [][]int{id, rev, r.Perm(len(edges)), r.Perm(len(edges))}
	}
	for oi, ord := range orders {
		d := gen.Clone(doc)
		d.NodeList.Edges = make([]*sbom.Edge, len(edges))
		for i, j := range ord {
			d.NodeList.Edges[i] = gen.Clone(edges[j])
		}
		if oi%2 == 1 {
			r.Shuffle(len(d.NodeList.Nodes), func(i, j int) { d.NodeList.Nodes[i], d.NodeList.Nodes[j] = d.NodeList.Nodes[j], d.NodeList.Nodes[i] })
		}
		det := map[string]any{"document": d.String(), "format": string(f), "edge_order": ord}
		var out []byte
		var err error
		if guard(c, "write-cdx", det, func() { out, err = writeDoc(d, f, 2) }) {
			return
		}
		c.Evals(1)
		if err != nil {
			c.Violatef("write-error", det, "writing a single-rooted containment tree as %s failed: %v", f, err)
			return
		}
		if depth >= 3 {
			c.DistinctBytes(out)
		}
		if oi == 0 && c.WantSample() && depth >= 3 {
			c.Sample(map[string]any{"shape": shape, "version": ver, "graph": gen.Canon(d.NodeList), "edge_orders_tried": len(orders)})
		}
		var d1 *sbom.Document
		if guard(c, "read-cdx", det, func() { d1, err = parseAuto(out) }) {
			return
		}
		c.Evals(1)
		if err != nil {
			c.Violatef("read-error", det, "reading back the writer's own %s output failed: %v", f, err)
			return
		}
		sig, msg, kf := compareCDXkf(d, d1, ver)
		if kf != "" {
			c.Violatef("cdx-reader-first-licence-only", det, "%s", kf)
		}
		if sig != "" {
			det["output_head"] = string(out[:min(len(out), 2000)])
			c.Violatef("roundtrip-"+sig, det, "first pass (%s, %s, depth %d, edge order %v): %s", f, shape, depth, ord, msg)
			return
		}
		if oi > 1 {
			continue
		}
		var out2 []byte
		var d2 *sbom.Document
		if guard(c, "write-cdx", det, func() { out2, err = writeDoc(d1, f, 2) }) {
			return
		}
		if err != nil {
			c.Violatef("second-write-error", det, "writing the parsed document again failed: %v", err)
			return
		}
		if guard(c, "read-cdx", det, func() { d2, err = parseAuto(out2) }) {
			return
		}
		c.Evals(2)
		if err != nil {
			c.Violatef("second-read-error", det, "second read failed: %v", err)
			return
		}
		if sig, msg := compareCDX(d1, d2, ver); sig != "" {
			c.Violatef("second-pass-"+sig, det, "second pass changed the document: %s", msg)
			return
		}
		if !d1.NodeList.Equal(d2.NodeList) {
			// which nodes differ? If all of them were written with >=2 licences, this is the known finding's
			// after-effect (license_concluded was synthesised from entries the reader then dropped).
			onlyKF := true
			var names []string
			for _, n1 := range d1.NodeList.Nodes {
				n2 := nodeByID(d2.NodeList, n1.Id)
				if n2 == nil || !n1.Equal(n2) {
					names = append(names, n1.Id)
					if o := nodeByID(d.NodeList, n1.Id); o == nil || len(o.Licenses) < 2 {
						onlyKF = false
					}
				}
			}
			if onlyKF && len(names) > 0 {
				c.Violatef("cdx-reader-first-licence-only", det, "second pass: nodes %q differ only because the reader dropped all but the first licence", names)
			} else {
				c.Violatef("second-pass-not-Equal", det, "node list after the second pass is not Equal to the one after the first (nodes %q)", names)
				return
			}
		}
	}
}
