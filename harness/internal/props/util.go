package props

import (
	"fmt"
	"regexp"
	"runtime/debug"
	"strings"

	"verifharness/internal/core"
)

var frameFnRe = regexp.MustCompile(`(?m)^([^\s].*)\(.*\)\n\t(\S+):(\d+)`)

// panicSite names the function in which a recovered panic was raised (first frame after the runtime's).
func panicSite(stack string) string {
	idx := strings.Index(stack, "\npanic(")
	if idx < 0 {
		return "unknown"
	}
	rest := stack[idx+1:]
	ms := frameFnRe.FindAllStringSubmatch(rest, 4)
	for _, m := range ms {
		fn := m[1]
		if strings.HasPrefix(fn, "panic") || strings.HasPrefix(fn, "runtime.") {
			continue
		}
		if i := strings.LastIndex(fn, "/"); i >= 0 {
			fn = fn[i+1:]
		}
		return fn
	}
	return "unknown"
}

// guard runs f and turns a panic of the code under test into a violation with the stack.
// The signature carries the function that panicked, so distinct defects stay distinct.
func guard(c *core.C, what string, detail any, f func()) (panicked bool) {
	defer func() {
		if r := recover(); r != nil {
			panicked = true
			st := string(debug.Stack())
			c.Violate("panic@"+panicSite(st), fmt.Sprintf("%s panicked in %s: %v", what, panicSite(st), r), map[string]any{"input": detail, "stack": st})
		}
	}()
	f()
	return false
}
