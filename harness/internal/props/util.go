package props

import (
	"fmt"
	"runtime/debug"

	"verifharness/internal/core"
)

// guard runs f and turns a panic of the code under test into a violation with the stack.
func guard(c *core.C, what string, detail any, f func()) (panicked bool) {
	defer func() {
		if r := recover(); r != nil {
			panicked = true
			c.Violate("panic-"+what, fmt.Sprintf("%s panicked: %v", what, r), map[string]any{"input": detail, "stack": string(debug.Stack())})
		}
	}()
	f()
	return false
}
