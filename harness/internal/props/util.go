package props

import (
	"fmt"
	"os"
	"regexp"
	"runtime/debug"
	"strings"
	"syscall"

	"verifharness/internal/core"
)

var frameFnRe = regexp.MustCompile(`(?m)^([^\s].*)\(.*\)\n\t(\S+):(\d+)`)

// panicSite names the function in which a recovered panic was raised (first frame after the runtime's).
func panicSite(stack string) string {
	idx := strings.Index(stack, "\npanic(")
	if idx < 0 {
		return "unknown"
	}
	rest := stack[idx+1:]
	ms := frameFnRe.FindAllStringSubmatch(rest, 4)
	for _, m := range ms {
		fn := m[1]
		if strings.HasPrefix(fn, "panic") || strings.HasPrefix(fn, "runtime.") {
			continue
		}
		if i := strings.LastIndex(fn, "/"); i >= 0 {
			fn = fn[i+1:]
		}
		return fn
	}
	return "unknown"
}

// guard runs f and turns a panic of the code under test into a violation with the stack.
// The signature carries the function that panicked, so distinct defects stay distinct.
func guard(c *core.C, what string, detail any, f func()) (panicked bool) {
	defer func() {
		if r := recover(); r != nil {
			panicked = true
			st := string(debug.Stack())
			c.Violate("panic@"+panicSite(st), fmt.Sprintf("%s panicked in %s: %v", what, panicSite(st), r), map[string]any{"input": detail, "stack": st})
		}
	}()
	f()
	return false
}

// scratchBase creates the scratch directory of a storage case. With otherDevice it is placed on a file system
// other than the one holding the system temporary directory (tmpfs under /dev/shm) when the sandbox has one: a
// store that stages its data in the system temporary directory then meets a rename across devices.
func scratchBase(c *core.C, prefix string, otherDevice bool) (string, error) {
	if otherDevice {
		var a, b syscall.Stat_t
		if syscall.Stat("/dev/shm", &a) == nil && syscall.Stat(os.TempDir(), &b) == nil && a.Dev != b.Dev {
			if d, err := os.MkdirTemp("/dev/shm", "vcheck-"+prefix); err == nil {
				c.Cover("store-directory-on-another-file-system-than-the-temporary-directory")
				return d, nil
			}
		}
		c.Cover("no-second-file-system-available(cross-device scenario not run)")
	}
	return os.MkdirTemp(os.Getenv("VCHECK_SCRATCH"), prefix)
}
