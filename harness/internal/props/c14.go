package props

import (
	"fmt"
	"math/rand"

	"github.com/protobom/protobom/pkg/sbom"
	"google.golang.org/protobuf/proto"
	"google.golang.org/protobuf/reflect/protoreflect"
	"verifharness/internal/core"
	"verifharness/internal/gen"
)

// C14 — Node.Diff against a reflection-based reference comparator and a reconstruction monitor.

// attrDiffers: reference comparison of one attribute (lists as sets, maps by entry, dates to the second).
func attrDiffers(a, b protoreflect.Message, fd protoreflect.FieldDescriptor) bool {
	switch {
	case fd.IsList():
		sa, sb := gen.Set{}, gen.Set{}
		la, lb := a.Get(fd).List(), b.Get(fd).List()
		for i := 0; i < la.Len(); i++ {
			sa.Add(canonValueStable(fd, la.Get(i)))
		}
		for i := 0; i < lb.Len(); i++ {
			sb.Add(canonValueStable(fd, lb.Get(i)))
		}
		return !sa.Equal(sb)
	case fd.IsMap():
		return fieldCanon(a, fd, false) != fieldCanon(b, fd, false)
	case fd.Kind() == protoreflect.MessageKind && fd.Message().FullName() == "google.protobuf.Timestamp":
		if a.Has(fd) != b.Has(fd) {
			return true
		}
		if !a.Has(fd) {
			return false
		}
		sec := fd.Message().Fields().ByName("seconds")
		return a.Get(fd).Message().Get(sec).Int() != b.Get(fd).Message().Get(sec).Int()
	default:
		return fieldCanon(a, fd, true) != fieldCanon(b, fd, true)
	}
}

// canonValueStable: deterministic encoding of a list element (no prototext, whose spacing is randomised per build).
func canonValueStable(fd protoreflect.FieldDescriptor, v protoreflect.Value) string {
	if fd.Kind() == protoreflect.MessageKind {
		b, _ := detMarshal.Marshal(v.Message().Interface())
		return string(b)
	}
	return fmt.Sprint(v.Interface())
}

// applyDiff rebuilds b's attributes from a and the reported diff, per the documented meaning of Added/Removed.
func applyDiff(a *sbom.Node, d *sbom.NodeDiff) *sbom.Node {
	out := gen.Clone(a)
	o, add, rem := out.ProtoReflect(), d.Added.ProtoReflect(), d.Removed.ProtoReflect()
	for _, fd := range nodeFields {
		switch {
		case fd.IsList():
			removed := gen.Set{}
			lr := rem.Get(fd).List()
			for i := 0; i < lr.Len(); i++ {
				removed.Add(canonValueStable(fd, lr.Get(i)))
			}
			cur := o.Get(fd).List()
			var keep []protoreflect.Value
			have := gen.Set{}
			for i := 0; i < cur.Len(); i++ {
				k := canonValueStable(fd, cur.Get(i))
				if !removed.Has(k) {
					keep = append(keep, cur.Get(i))
					have.Add(k)
				}
			}
			la := add.Get(fd).List()
			for i := 0; i < la.Len(); i++ {
				if k := canonValueStable(fd, la.Get(i)); !have.Has(k) {
					keep = append(keep, la.Get(i))
					have.Add(k)
				}
			}
			nl := o.NewField(fd).List()
			for _, v := range keep {
				if fd.Kind() == protoreflect.MessageKind {
					nl.Append(protoreflect.ValueOfMessage(proto.Clone(v.Message().Interface()).ProtoReflect()))
				} else {
					nl.Append(v)
				}
			}
			o.Set(fd, protoreflect.ValueOfList(nl))
		case fd.IsMap():
			mp := o.Mutable(fd).Map()
			rem.Get(fd).Map().Range(func(k protoreflect.MapKey, _ protoreflect.Value) bool { mp.Clear(k); return true })
			add.Get(fd).Map().Range(func(k protoreflect.MapKey, v protoreflect.Value) bool { mp.Set(k, v); return true })
		default:
			if add.Has(fd) {
				if fd.Kind() == protoreflect.MessageKind {
					o.Set(fd, protoreflect.ValueOfMessage(proto.Clone(add.Get(fd).Message().Interface()).ProtoReflect()))
				} else {
					o.Set(fd, add.Get(fd))
				}
			} else if rem.Has(fd) {
				o.Clear(fd)
			}
		}
	}
	return out
}

func c14Pop(r *rand.Rand) gen.PopOpts {
	o := c13Pop()
	o.PFill = []float64{0.2, 0.5, 0.8, 1}[r.Intn(4)]
	o.MaxList = 3
	return o
}

func init() {
	core.Register(&core.Prop{
		ID: "C14", Level: "exploration",
		Rule: "each case draws an ordered pair of nodes of one of eight kinds (different nodes that flatten to the same unseparated text; independent random nodes; single-attribute mutant at a reflection-enumerated site; equal copy with permuted set-valued attributes; empty-versus-absent collections; duplicated list elements; sub-second date change; map entries / list elements whose value is the empty string) " +
			"and checks Diff(a,b) and Diff(b,a) against a reference comparator over ALL schema attributes found by reflection: nil iff no attribute differs (lists as sets, dates to the second), DiffCount == number of differing attributes, " +
			"and apply(a, diff) reproduces b on every attribute. Every fourth case diffs the same two values again after one of them was changed in place. distinct = hash of the pair; non-trivial = at least one attribute differs.",
		Assumptions: []string{"separator-free text (nested persons and external references are identified by their flattened strings: known finding C13 flatstring-separator-collision)", "no nil elements inside repeated message fields"},
		NCases: func(tier string) int {
			if tier == "thorough" {
				return 2000000
			}
			return 100000
		},
		Case: c14Case,
	})
}

func c14Case(c *core.C) {
	r := c.R
	o := c14Pop(r)
	a := gen.Node(r, "id-a", o)
	var b *sbom.Node
	kind := []string{"independent", "single-mutant", "permuted-copy", "empty-vs-absent", "duplicates", "subsecond", "empty-valued-entries", "flatten-alike"}[c.K%8]
	var mutPath string
	switch kind {
	case "independent":
		b = gen.Node(r, gen.Pick(r, []string{"id-a", "id-b"}), c14Pop(r))
	case "single-mutant":
		b = gen.Clone(a)
		mu := c13NodeMuts[(c.K/8)%len(c13NodeMuts)]
		if !gen.Apply(r, b.ProtoReflect(), mu, 0, o) {
			// site absent in this instance: populate fully and retry
			oo := o
			oo.PFill = 1
			a = gen.Node(r, "id-a", oo)
			b = gen.Clone(a)
			gen.Apply(r, b.ProtoReflect(), mu, 0, oo)
		}
		mutPath = mu.String()
		c.Cover("mutated-path:" + mu.FieldPath())
	case "permuted-copy":
		b = permuteNode(r, a)
	case "empty-vs-absent":
		b = gen.Clone(a)
		if b.Licenses == nil {
			b.Licenses = []string{}
		}
		if b.Hashes == nil {
			b.Hashes = map[int32]string{}
		}
		if b.Identifiers == nil {
			b.Identifiers = map[int32]string{}
		}
		if b.Suppliers == nil {
			b.Suppliers = []*sbom.Person{}
		}
		if b.ExternalReferences == nil {
			b.ExternalReferences = []*sbom.ExternalReference{}
		}
		if b.PrimaryPurpose == nil {
			b.PrimaryPurpose = []sbom.Purpose{}
		}
	case "duplicates":
		b = gen.Clone(a)
		if len(b.Licenses) > 0 {
			b.Licenses = append(b.Licenses, b.Licenses[0])
		}
		if len(b.Suppliers) > 0 {
			b.Suppliers = append(b.Suppliers, gen.Clone(b.Suppliers[0]))
		}
		if len(b.FileTypes) > 0 {
			b.FileTypes = append(b.FileTypes, b.FileTypes[0])
		}
	case "flatten-alike":
		// different nodes that a text rendering with unescaped, unseparated entries cannot tell apart (the known
		// finding of C13 concerns Equal; Diff compares attribute by attribute and must see the difference)
		b = gen.Clone(a)
		k1 := int32(1 + r.Intn(9))
		k2 := int32(1 + r.Intn(9))
		v1, v2 := gen.TextPlain(r, 3)+"x", gen.TextPlain(r, 3)+"y"
		switch r.Intn(3) {
		case 0:
			a.Hashes = map[int32]string{k1: v1, k1*10 + k2: v2}
			b.Hashes = map[int32]string{k1: v1 + fmt.Sprint(k1), k2: v2}
			if k1 == k2 {
				b.Hashes = map[int32]string{k1: v2} // degenerate draw: still a different map
			}
		case 1:
			a.Identifiers = map[int32]string{k1: v1, k1*10 + k2: v2}
			b.Identifiers = map[int32]string{k1: v1 + fmt.Sprint(k1), k2: v2}
			if k1 == k2 {
				b.Identifiers = map[int32]string{k1: v2}
			}
		default:
			a.Name, a.Version = "x:protobom.protobom.Node.version:1", ""
			b.Name, b.Version = "x", "1"
		}
	case "empty-valued-entries":
		// a map entry or list element whose value is the empty string is still an entry
		b = gen.Clone(a)
		switch r.Intn(4) {
		case 0:
			if b.Hashes == nil {
				b.Hashes = map[int32]string{}
			}
			b.Hashes[int32(901+r.Intn(3))] = ""
		case 1:
			if b.Identifiers == nil {
				b.Identifiers = map[int32]string{}
			}
			b.Identifiers[int32(901+r.Intn(3))] = ""
		case 2:
			b.Licenses = append(b.Licenses, "")
		default:
			for k := range b.Hashes {
				b.Hashes[k] = ""
				break
			}
		}
	case "subsecond":
		b = gen.Clone(a)
		straddle := r.Intn(2) == 0
		for i, t := range []**timestampT{&b.ReleaseDate, &b.BuildDate, &b.ValidUntilDate} {
			if *t == nil {
				continue
			}
			if straddle {
				// less than a second apart but in different seconds: still a difference "to the second"
				at := []*timestampT{a.ReleaseDate, a.BuildDate, a.ValidUntilDate}[i]
				at.Nanos = int32(900000000 + r.Intn(99999999))
				(*t).Seconds = at.Seconds + 1
				(*t).Nanos = int32(r.Intn(100000000))
			} else {
				(*t).Nanos = int32(r.Intn(1000000000))
			}
		}
		if straddle {
			c.Cover("dates-straddling-a-second-boundary")
		}
	}
	c.Cover("kind:" + kind)
	if !c14Pair(c, a, b, kind, mutPath) {
		return
	}
	if !c14Pair(c, b, a, kind+"(reversed)", mutPath) {
		return
	}
	if c.K%4 == 0 {
		// the same node values are diffed again after one of them was changed in place: the answer must describe
		// the nodes as they are now
		mu := c13NodeMuts[r.Intn(len(c13NodeMuts))]
		if gen.Apply(r, a.ProtoReflect(), mu, 1, o) {
			c.Cover("diffed-again-after-in-place-change")
			if c14Pair(c, a, b, kind+"(after changing the first node in place)", mu.String()) {
				c14Pair(c, b, a, kind+"(after changing the second node in place)", mu.String())
			}
		}
	}
}

func c14Pair(c *core.C, a, b *sbom.Node, kind, mutPath string) bool {
	a0, b0 := gen.Clone(a), gen.Clone(b)
	var d *sbom.NodeDiff
	det := map[string]any{"kind": kind, "mutation": mutPath, "a": fmt.Sprint(a), "b": fmt.Sprint(b)}
	if guard(c, "Node.Diff", det, func() { d = a.Diff(b) }) {
		return false
	}
	c.Evals(1)
	ar, br := a0.ProtoReflect(), b0.ProtoReflect()
	var differing []string
	for _, fd := range nodeFields {
		if attrDiffers(ar, br, fd) {
			differing = append(differing, string(fd.Name()))
		}
	}
	if len(differing) > 0 {
		c.DistinctStr(fmt.Sprint(a0) + "|" + fmt.Sprint(b0))
		if c.WantSample() && len(differing) < 4 {
			c.Sample(map[string]any{"kind": kind, "differing_attributes": differing, "a": fmt.Sprint(a0)[:min(300, len(fmt.Sprint(a0)))]})
		}
	}
	if len(differing) == 0 {
		if d != nil {
			c.Violatef("diff-spurious:"+kind, det, "Diff reports %d differences between nodes whose attributes are all equal (%s)", d.DiffCount, kind)
			return false
		}
		return true
	}
	if d == nil {
		c.Violatef("diff-missed:"+differing[0], det, "Diff is nil although attributes %v differ (%s %s): %s", differing, kind, mutPath, firstDiff(a0, b0))
		return false
	}
	if d.DiffCount != len(differing) {
		c.Violatef("diff-count", det, "DiffCount=%d but %d attributes differ %v (%s %s)", d.DiffCount, len(differing), differing, kind, mutPath)
		return false
	}
	if d.Added == nil || d.Removed == nil {
		c.Violatef("diff-nil-parts", det, "Diff has nil Added/Removed")
		return false
	}
	rebuilt := applyDiff(a0, d)
	rr := rebuilt.ProtoReflect()
	for _, fd := range nodeFields {
		if attrDiffers(rr, br, fd) {
			c.Violatef("diff-not-reconstructive:"+string(fd.Name()), det, "applying the diff to the first node does not give the second node's %s: got %s, want %s (%s %s)", fd.Name(), fieldCanon(rr, fd, false), fieldCanon(br, fd, false), kind, mutPath)
			return false
		}
	}
	return true
}
