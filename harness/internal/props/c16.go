package props

import (
	"errors"
	"fmt"
	"math/rand"
	"sort"
	"strings"

	"github.com/protobom/protobom/pkg/sbom"
	"verifharness/internal/core"
	"verifharness/internal/gen"
)

// C16 — lookups against linear reference filters, GetMatchingNode against the documented rule.

func init() {
	core.Register(&core.Prop{
		ID: "C16", Level: "exploration",
		Rule: "each case draws a list of <=6 nodes (3 hash algorithms x 2 values x present/absent, in a third of the cases also present with an empty value, nil and empty hash maps, FILE nodes, repeated purls and names, identifiers of all four kinds) and a probe node; " +
			"GetMatchingNode is run on 4 permutations of the list x 3 repetitions and compared with the documented rule (outcome = returned node id / nil / ambiguity error; the returned pointer must be an element of the list); " +
			"GetNodeByID, GetNodesByName, GetNodesByIdentifier (every documented spelling of the type), GetRootNodes (list and document), GetNodesByPurlType are compared with linear filters. " +
			"afterwards the list is changed in place four times (a hash added or removed, a node replaced, purl and name changed) and matching and the lookups are re-checked against the list as it then is; distinct = hash of (list, probe); non-trivial = probe shares a hash value or a purl with at least one node.",
		Assumptions: []string{"an algorithm whose value is the empty string is a present algorithm (it conflicts with a non-empty value); where the outcome depends on whether two empty values agree, the case is executed but not judged", "unique node ids", "identifier-type spellings outside the documented table are executed but not judged"},
		NCases: func(tier string) int {
			if tier == "thorough" {
				return 2000000
			}
			return 80000
		},
		Case: c16Case,
	})
}

var c16Algos = []int32{int32(sbom.HashAlgorithm_SHA1), int32(sbom.HashAlgorithm_SHA256), int32(sbom.HashAlgorithm_SHA512)}
var c16Purls = []string{"pkg:npm/left-pad@1.0.0", "pkg:deb/debian/bash@5", "pkg:/apk/wolfi/bash@4.1", "pkg:golang/x/y@v1"}
var c16Names = []string{"bash", "left-pad", "x", ""}

func c16Node(r *rand.Rand, id string) *sbom.Node {
	n := &sbom.Node{Id: id, Name: gen.Pick(r, c16Names)}
	if r.Intn(5) == 0 {
		n.Type = sbom.Node_FILE
	}
	switch r.Intn(6) {
	case 0: // nil map
	case 1:
		n.Hashes = map[int32]string{}
	default:
		n.Hashes = map[int32]string{}
		for _, a := range c16Algos {
			if r.Intn(2) == 0 {
				n.Hashes[a] = fmt.Sprintf("v%d", r.Intn(2))
				if r.Intn(4) == 0 {
					// digests that differ only in letter case are different strings; one with upper-case letters
					// equals itself
					n.Hashes[a] = gen.Pick(r, []string{"V0", "V1", "aB", "Ab", "AB", "ab"})
				}
				if c16EmptyValues && r.Intn(4) == 0 {
					n.Hashes[a] = "" // an algorithm that is present with an empty value (a decoded document can carry it)
				}
			}
		}
	}
	if r.Intn(3) != 0 {
		n.Identifiers = map[int32]string{}
		if r.Intn(3) != 0 {
			n.Identifiers[1] = gen.Pick(r, c16Purls)
		}
		for _, k := range []int32{0, 2, 3, 4} {
			if r.Intn(4) == 0 {
				n.Identifiers[k] = fmt.Sprintf("id%d", r.Intn(2))
			}
		}
	}
	return n
}

func purlOf(n *sbom.Node) string {
	if n.Type == sbom.Node_FILE {
		return ""
	}
	return n.Identifiers[1]
}

// c16EmptyValues is set per case: hash maps may then carry algorithms whose value is the empty string.
var c16EmptyValues bool

// c16StrictAgreement decides what counts as evidence when the only agreeing common algorithms carry the empty
// string on both sides; the statement is silent there, so such cases are evaluated under both readings and
// judged only when the readings coincide.
var c16StrictAgreement bool

// hashesMatchModel: both non-empty, at least one common algorithm, all common algorithms agree. An algorithm is
// common when both maps have the key (HashesMatch: "algorithms not present in the node ... are ignored"), so an
// empty value against a non-empty one is a disagreement.
func hashesMatchModel(a, b map[int32]string) bool {
	if len(a) == 0 || len(b) == 0 {
		return false
	}
	common := false
	for k, v := range b {
		if w, ok := a[k]; ok {
			if v != w {
				return false
			}
			if v != "" || !c16StrictAgreement {
				common = true
			}
		}
	}
	return common
}

// matchModel returns (id, "ok"|"nil"|"ambiguous").
func matchModel(nl *sbom.NodeList, probe *sbom.Node) (string, string) {
	var hm []*sbom.Node
	for _, n := range nl.Nodes {
		if hashesMatchModel(n.Hashes, probe.Hashes) {
			hm = append(hm, n)
		}
	}
	pp := purlOf(probe)
	switch {
	case len(hm) == 1:
		return hm[0].Id, "ok"
	case len(hm) == 0:
		if pp == "" {
			return "", "nil"
		}
		var pm []*sbom.Node
		for _, n := range nl.Nodes {
			if purlOf(n) == pp {
				pm = append(pm, n)
			}
		}
		switch len(pm) {
		case 0:
			return "", "nil"
		case 1:
			return pm[0].Id, "ok"
		}
		return "", "ambiguous"
	default:
		if pp == "" {
			return "", "ambiguous"
		}
		var pm []*sbom.Node
		for _, n := range hm {
			if purlOf(n) == pp {
				pm = append(pm, n)
			}
		}
		if len(pm) == 1 {
			return pm[0].Id, "ok"
		}
		return "", "ambiguous"
	}
}

var c16TypeSpellings = map[string]int32{
	"purl": 1, "cpe22Type": 2, "cpe23Type": 3, "gitoid": 4,
	"cpe22": 2, "cpe2.2": 2, "cpe23": 3, "cpe2.3": 3, "CPE22": 2, " cpe2.3 ": 3, "Cpe23": 3,
}

func ptrSet(ns []*sbom.Node) string {
	xs := []string{}
	for _, n := range ns {
		xs = append(xs, fmt.Sprintf("%p", n))
	}
	sort.Strings(xs)
	return strings.Join(xs, ",")
}

func c16Case(c *core.C) {
	r := c.R
	c16EmptyValues = c.K%3 == 2
	c16StrictAgreement = false
	n := r.Intn(7)
	nl := &sbom.NodeList{}
	for i := 0; i < n; i++ {
		nl.Nodes = append(nl.Nodes, c16Node(r, fmt.Sprintf("n%d", i)))
	}
	for _, nd := range nl.Nodes {
		if r.Intn(3) == 0 {
			nl.RootElements = append(nl.RootElements, nd.Id)
		}
	}
	if r.Intn(5) == 0 {
		nl.RootElements = append(nl.RootElements, "absent")
	}
	probe := c16Node(r, "probe")
	det := map[string]any{"list": nl.String(), "probe": probe.String()}
	wantID, wantKind := matchModel(nl, probe)
	if c16EmptyValues {
		c.Cover("hash-maps-with-empty-values")
		c16StrictAgreement = true
		sID, sKind := matchModel(nl, probe)
		c16StrictAgreement = false
		if sID != wantID || sKind != wantKind {
			// the outcome hinges on whether "" == "" is evidence of identity: not judged
			c.Cover("empty-only-agreement(undecided, not judged)")
			return
		}
	}
	c.Cover("match-outcome:" + wantKind)
	nontrivial := false
	for _, nd := range nl.Nodes {
		if hashesMatchModel(nd.Hashes, probe.Hashes) || (purlOf(probe) != "" && purlOf(nd) == purlOf(probe)) {
			nontrivial = true
		}
	}
	if nontrivial {
		c.DistinctStr(nl.String() + "|" + probe.String())
		if c.WantSample() {
			c.Sample(map[string]any{"list": nl.String(), "probe": probe.String(), "model": wantID + "/" + wantKind})
		}
	}
	for perm := 0; perm < 4; perm++ {
		p := nl
		if perm > 0 {
			p = &sbom.NodeList{Nodes: gen.Shuffle(r, nl.Nodes), RootElements: nl.RootElements}
		}
		for rep := 0; rep < 3; rep++ {
			var got *sbom.Node
			var err error
			if guard(c, "GetMatchingNode", det, func() { got, err = p.GetMatchingNode(probe) }) {
				return
			}
			c.Evals(1)
			kind, id := "nil", ""
			switch {
			case err != nil && errors.Is(err, sbom.ErrorMoreThanOneMatch):
				kind = "ambiguous"
			case err != nil:
				kind = "other-error:" + err.Error()
			case got != nil:
				kind, id = "ok", got.Id
			}
			if err != nil && got != nil {
				c.Violatef("match-both", det, "GetMatchingNode returned a node and an error")
				return
			}
			if kind != wantKind || id != wantID {
				c.Violatef("match-rule-"+wantKind+"-got-"+strings.SplitN(kind, ":", 2)[0], det, "GetMatchingNode(perm %d, rep %d) = (%s,%s), documented rule gives (%s,%s); list=%s probe=%s", perm, rep, id, kind, wantID, wantKind, nl.String(), probe.String())
				return
			}
			if got != nil {
				in := false
				for _, x := range p.Nodes {
					if x == got {
						in = true
					}
				}
				if !in {
					c.Violatef("match-outside-list", det, "GetMatchingNode returned a node that is not an element of the list")
					return
				}
			}
		}
	}
	// plain lookups against linear filters
	for _, id := range []string{"n0", "n3", "absent", ""} {
		var want *sbom.Node
		for _, x := range nl.Nodes {
			if x.Id == id {
				want = x
				break
			}
		}
		c.Evals(1)
		if got := nl.GetNodeByID(id); got != want {
			c.Violatef("lookup-GetNodeByID", det, "GetNodeByID(%q) returned %v, want %v", id, got, want)
			return
		}
	}
	for _, name := range c16Names {
		var want []*sbom.Node
		for _, x := range nl.Nodes {
			if x.Name == name {
				want = append(want, x)
			}
		}
		c.Evals(1)
		if got := nl.GetNodesByName(name); ptrSet(got) != ptrSet(want) {
			c.Violatef("lookup-GetNodesByName", det, "GetNodesByName(%q) returned %d nodes, want %d", name, len(got), len(want))
			return
		}
	}
	for sp, key := range c16TypeSpellings {
		for _, v := range []string{"id0", "id1", c16Purls[0], c16Purls[1], ""} {
			var want []*sbom.Node
			for _, x := range nl.Nodes {
				if w, ok := x.Identifiers[key]; ok && w == v {
					want = append(want, x)
				}
			}
			c.Evals(1)
			if got := nl.GetNodesByIdentifier(sp, v); ptrSet(got) != ptrSet(want) {
				c.Violatef("lookup-GetNodesByIdentifier", det, "GetNodesByIdentifier(%q,%q) returned %d nodes, want %d; list=%s", sp, v, len(got), len(want), nl.String())
				return
			}
		}
	}
	guard(c, "GetNodesByIdentifier", det, func() { _ = nl.GetNodesByIdentifier("no-such-type", "id0") })
	{
		roots := gen.RootSet(nl)
		var want []*sbom.Node
		for _, x := range nl.Nodes {
			if roots.Has(x.Id) {
				want = append(want, x)
			}
		}
		c.Evals(2)
		if got := nl.GetRootNodes(); ptrSet(got) != ptrSet(want) {
			c.Violatef("lookup-GetRootNodes", det, "GetRootNodes returned %d nodes, want %d; list=%s", len(got), len(want), nl.String())
			return
		}
		doc := &sbom.Document{NodeList: nl}
		if got := doc.GetRootNodes(); ptrSet(got) != ptrSet(want) {
			c.Violatef("lookup-Document.GetRootNodes", det, "Document.GetRootNodes returned %d nodes, want %d", len(got), len(want))
			return
		}
	}
	// queried types include proper prefixes and extensions of the types present (go/golang, np/npm, apk2/apk)
	for _, pt := range []string{"npm", "deb", "apk", "golang", "absent", "go", "np", "ap", "golan", "apk2", "de"} {
		want := gen.Set{}
		for _, x := range nl.Nodes {
			p := purlOf(x)
			if strings.HasPrefix(p, "pkg:"+pt+"/") || strings.HasPrefix(p, "pkg:/"+pt+"/") {
				want.Add(x.Id)
			}
		}
		c.Evals(1)
		var got *sbom.NodeList
		if guard(c, "GetNodesByPurlType", det, func() { got = nl.GetNodesByPurlType(pt) }) {
			return
		}
		if got == nil || !gen.IDSet(got).Equal(want) || len(got.Nodes) != len(want) {
			c.Violatef("lookup-GetNodesByPurlType", det, "GetNodesByPurlType(%q) returned %s, want nodes %s", pt, gen.Canon(got), want)
			return
		}
	}
	// the list changes in place between calls (same *NodeList value, same number of nodes): every answer must
	// describe the list as it is at the time of the call, not as an earlier call saw it
	if len(nl.Nodes) == 0 || c16EmptyValues {
		return
	}
	var trace []string
	for step := 0; step < 4; step++ {
		i := r.Intn(len(nl.Nodes))
		switch r.Intn(4) {
		case 0:
			a := c16Algos[r.Intn(len(c16Algos))]
			nl.Nodes[i].AddHash(sbom.HashAlgorithm(a), fmt.Sprintf("v%d", r.Intn(2)))
			trace = append(trace, fmt.Sprintf("AddHash on node %d", i))
		case 1:
			nl.Nodes[i] = c16Node(r, nl.Nodes[i].Id)
			trace = append(trace, fmt.Sprintf("node %d replaced by another node with the same id", i))
		case 2:
			if nl.Nodes[i].Identifiers == nil {
				nl.Nodes[i].Identifiers = map[int32]string{}
			}
			nl.Nodes[i].Identifiers[1] = gen.Pick(r, c16Purls)
			nl.Nodes[i].Name = gen.Pick(r, c16Names)
			trace = append(trace, fmt.Sprintf("purl and name of node %d changed", i))
		default:
			nl.Nodes[i].Hashes = nil
			trace = append(trace, fmt.Sprintf("hashes of node %d removed", i))
		}
		c.Cover("lookups-after-in-place-change-of-the-list")
		hdet := map[string]any{"initial_list": det["list"], "probe": det["probe"], "changes": append([]string{}, trace...), "list_now": nl.String()}
		wantID, wantKind := matchModel(nl, probe)
		var got *sbom.Node
		var err error
		if guard(c, "GetMatchingNode", hdet, func() { got, err = nl.GetMatchingNode(probe) }) {
			return
		}
		c.Evals(1)
		kind, id := "nil", ""
		switch {
		case err != nil && errors.Is(err, sbom.ErrorMoreThanOneMatch):
			kind = "ambiguous"
		case err != nil:
			kind = "other-error"
		case got != nil:
			kind, id = "ok", got.Id
		}
		if kind != wantKind || id != wantID {
			c.Violatef("match-stale-after-change", hdet, "after %v GetMatchingNode = (%s,%s), the documented rule on the list as it is now gives (%s,%s); list=%s probe=%s", trace, id, kind, wantID, wantKind, nl.String(), probe.String())
			return
		}
		if got != nil {
			in := false
			for _, x := range nl.Nodes {
				if x == got {
					in = true
				}
			}
			if !in {
				c.Violatef("match-outside-list", hdet, "after %v GetMatchingNode returned a node that is no longer an element of the list", trace)
				return
			}
		}
		for _, name := range c16Names {
			var want []*sbom.Node
			for _, x := range nl.Nodes {
				if x.Name == name {
					want = append(want, x)
				}
			}
			if got := nl.GetNodesByName(name); ptrSet(got) != ptrSet(want) {
				c.Violatef("lookup-stale-after-change:GetNodesByName", hdet, "after %v GetNodesByName(%q) returned %d nodes, want %d", trace, name, len(got), len(want))
				return
			}
		}
		for _, v := range c16Purls {
			var want []*sbom.Node
			for _, x := range nl.Nodes {
				if w, ok := x.Identifiers[1]; ok && w == v {
					want = append(want, x)
				}
			}
			if got := nl.GetNodesByIdentifier("purl", v); ptrSet(got) != ptrSet(want) {
				c.Violatef("lookup-stale-after-change:GetNodesByIdentifier", hdet, "after %v GetNodesByIdentifier(purl,%q) returned %d nodes, want %d", trace, v, len(got), len(want))
				return
			}
		}
		if got := nl.GetNodeByID(nl.Nodes[i].Id); got == nil || got.Id != nl.Nodes[i].Id {
			c.Violatef("lookup-stale-after-change:GetNodeByID", hdet, "after %v GetNodeByID(%q) returned %v", trace, nl.Nodes[i].Id, got)
			return
		}
	}
}
