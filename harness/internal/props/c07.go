package props

import (
	"crypto/sha256"
	"encoding/json"
	"fmt"
	"math/rand"
	"os"
	"os/exec"
	"sort"
	"strings"

	"github.com/protobom/protobom/pkg/formats"
	_ "github.com/protobom/protobom/pkg/native/serializers/beta" // registers the SPDX 3 serializer
	"github.com/protobom/protobom/pkg/sbom"
	"google.golang.org/protobuf/proto"
	"verifharness/internal/core"
	"verifharness/internal/gen"
)

// C07 — serializers are total and deterministic on arbitrary Document values.

var c07Formats = append(append([]formats.Format{}, c11Formats...), formats.Format("text/spdx+json;version=3.0"))

func c07Doc(r *rand.Rand, variant int) (*sbom.Document, string) {
	o := gen.DefaultPop()
	o.PFill = []float64{0.3, 0.6, 0.9}[r.Intn(3)]
	o.ValidEnum = r.Intn(2) == 0
	o.Depth = 3
	utf8Only := r.Intn(2) == 0
	o.Text = func(r *rand.Rand) string {
		if utf8Only {
			return gen.ValidUTF8Any(r, 8)
		}
		return gen.TextAny(r, 8)
	}
	switch variant % 12 {
	case 0:
		return &sbom.Document{NodeList: &sbom.NodeList{}}, "nil-metadata"
	case 1:
		return &sbom.Document{Metadata: &sbom.Metadata{Id: "x"}}, "nil-nodelist"
	case 2:
		return &sbom.Document{}, "nil-metadata-and-nodelist"
	case 3:
		return sbom.NewDocument(), "new-document"
	}
	doc := &sbom.Document{Metadata: &sbom.Metadata{}, NodeList: &sbom.NodeList{}}
	gen.Populate(r, doc.Metadata.ProtoReflect(), o)
	desc := "populated"
	n := r.Intn(7)
	if variant%12 == 11 {
		n = 5 + r.Intn(3)
	}
	ids := make([]string, n)
	for i := range ids {
		if variant%12 == 11 {
			ids[i] = fmt.Sprintf("c%d", i)
			doc.NodeList.Nodes = append(doc.NodeList.Nodes, &sbom.Node{Id: ids[i], Name: ids[i], Version: "1", PrimaryPurpose: []sbom.Purpose{sbom.Purpose_LIBRARY}})
			continue
		}
		switch r.Intn(10) {
		case 0:
			ids[i] = ""
		case 1:
			if i > 0 {
				ids[i] = ids[r.Intn(i)] // duplicate id
				break
			}
			fallthrough
		case 2:
			ids[i] = "protobom-auto--00000000" + fmt.Sprint(i)
			if r.Intn(2) == 0 {
				// look-alikes of the generated identifiers: the reserved prefix with the separator missing, empty
				// flags, empty tail, doubled or bare separators
				ids[i] = gen.Pick(r, []string{"protobom-", "protobom-auto", "protobom-auto-", "protobom--", "protobom-x-y-z", "protobom-auto--", "--", "protobom", "protobom---", "protobom-auto----x", "-auto--1"}) + gen.Pick(r, []string{"", "", fmt.Sprint(i)})
			}
		default:
			ids[i] = fmt.Sprintf("n%d", i)
		}
		nd := gen.Node(r, ids[i], o)
		if !o.ValidEnum && r.Intn(3) == 0 {
			if nd.Hashes == nil {
				nd.Hashes = map[int32]string{}
			}
			nd.Hashes[gen.Pick(r, []int32{-1, 0, 18, 1000, -2147483648, 2147483647})] = "00"
			if nd.Identifiers == nil {
				nd.Identifiers = map[int32]string{}
			}
			nd.Identifiers[gen.Pick(r, []int32{-1, 0, 5, 1000, -2147483648})] = "x"
			nd.PrimaryPurpose = append(nd.PrimaryPurpose, sbom.Purpose(gen.Pick(r, []int32{-1, 29, 1000, -2147483648})))
			nd.Type = sbom.Node_NodeType(gen.Pick(r, []int32{-1, 2, 1000}))
		}
		if r.Intn(6) == 0 {
			// several identifiers that compete for one slot of the target format, one of them possibly empty:
			// which one is written must not depend on the order in which the map is walked
			if nd.Identifiers == nil {
				nd.Identifiers = map[int32]string{}
			}
			nd.Identifiers[int32(sbom.SoftwareIdentifierType_CPE22)] = gen.Pick(r, []string{"cpe:/a:v:p:1", "cpe:/a:v:p:1", ""})
			nd.Identifiers[int32(sbom.SoftwareIdentifierType_CPE23)] = gen.Pick(r, []string{"cpe:2.3:a:v:p:1:*:*:*:*:*:*:*", "", ""})
		}
		doc.NodeList.Nodes = append(doc.NodeList.Nodes, nd)
	}
	cand := append(append([]string{}, ids...), "dangling", "")
	types := []sbom.Edge_Type{sbom.Edge_contains, sbom.Edge_contains, sbom.Edge_dependsOn, sbom.Edge_Type(r.Intn(47)), sbom.Edge_Type(1000), sbom.Edge_Type(-1 - r.Intn(2)), sbom.Edge_Type(-2147483648), sbom.Edge_Type(2147483647)}
	for i := 0; i < r.Intn(10); i++ {
		e := &sbom.Edge{From: gen.Pick(r, cand), Type: gen.Pick(r, types)}
		for j := 0; j < r.Intn(4); j++ {
			e.To = append(e.To, gen.Pick(r, cand))
		}
		doc.NodeList.Edges = append(doc.NodeList.Edges, e)
	}
	switch variant % 12 {
	case 4:
		desc = "no-roots"
	case 5:
		desc = "many-roots"
		for i := 0; i < 1+r.Intn(4); i++ {
			doc.NodeList.RootElements = append(doc.NodeList.RootElements, gen.Pick(r, cand))
		}
	case 6:
		desc = "cyclic-containment"
		if n >= 2 {
			doc.NodeList.Edges = append(doc.NodeList.Edges, &sbom.Edge{From: ids[0], Type: sbom.Edge_contains, To: []string{ids[1]}}, &sbom.Edge{From: ids[1], Type: sbom.Edge_contains, To: []string{ids[0], ids[1]}})
			if n >= 3 {
				doc.NodeList.Edges = append(doc.NodeList.Edges, &sbom.Edge{From: ids[1], Type: sbom.Edge_contains, To: []string{ids[2]}}, &sbom.Edge{From: ids[2], Type: sbom.Edge_contains, To: []string{ids[1]}})
				doc.NodeList.RootElements = []string{ids[2]}
			} else {
				doc.NodeList.RootElements = []string{ids[0]}
			}
		}
	case 11:
		desc = "random-cyclic-containment-below-several-top-level-components"
		// the root contains two or three nodes; the others are tied together by random contains edges with cycles
		if n >= 4 {
			doc.NodeList.Edges = nil
			doc.NodeList.RootElements = []string{ids[0]}
			tops := 2 + r.Intn(2)
			if tops > n-2 {
				tops = n - 2
			}
			doc.NodeList.Edges = append(doc.NodeList.Edges, &sbom.Edge{From: ids[0], Type: sbom.Edge_contains, To: append([]string{}, ids[1:1+tops]...)})
			for i := 1; i < n; i++ {
				for j := 1 + tops; j < n; j++ {
					if i != j && r.Intn(3) == 0 {
						doc.NodeList.Edges = append(doc.NodeList.Edges, &sbom.Edge{From: ids[i], Type: sbom.Edge_contains, To: []string{ids[j]}})
					}
				}
			}
			// close at least one cycle among the non-top nodes
			if n-1-tops >= 2 {
				a, b := ids[1+tops], ids[2+tops]
				doc.NodeList.Edges = append(doc.NodeList.Edges, &sbom.Edge{From: a, Type: sbom.Edge_contains, To: []string{b}}, &sbom.Edge{From: b, Type: sbom.Edge_contains, To: []string{a}})
				doc.NodeList.Edges = append(doc.NodeList.Edges, &sbom.Edge{From: ids[1], Type: sbom.Edge_contains, To: []string{a}}, &sbom.Edge{From: ids[2], Type: sbom.Edge_contains, To: []string{b}})
			}
		}
	case 7:
		desc = "dangling-root"
		doc.NodeList.RootElements = []string{"dangling"}
	default:
		if n > 0 {
			doc.NodeList.RootElements = []string{ids[r.Intn(n)]}
		}
	}
	switch variant % 12 {
	case 8:
		desc = "nil-maps-and-slices"
		for _, nd := range doc.NodeList.Nodes {
			nd.Hashes, nd.Identifiers, nd.Licenses, nd.Suppliers, nd.ExternalReferences, nd.PrimaryPurpose = nil, nil, nil, nil, nil, nil
		}
	case 9:
		desc = "document-types-all-subsets"
		doc.Metadata.DocumentTypes = nil
		for m := 0; m < 8; m++ {
			dt := &sbom.DocumentType{}
			if m&1 != 0 {
				t := sbom.DocumentType_SBOMType(r.Intn(10))
				dt.Type = &t
			}
			// free-text members: arbitrary text, or (half of the time) text that spells one of the enumeration's own
			// words in some letter case, possibly with blanks around it
			word := func() string {
				if r.Intn(2) == 0 {
					return o.Text(r)
				}
				vals := sbom.DocumentType_SBOMType(0).Descriptor().Values()
				w := string(vals.Get(r.Intn(vals.Len())).Name())
				if dt.Type != nil && r.Intn(2) == 0 {
					if v := vals.ByNumber(dt.Type.Number()); v != nil {
						w = string(v.Name()) // the entry's own kind, spelled out
					}
				}
				switch r.Intn(3) {
				case 0:
					w = strings.ToLower(w)
				case 1:
					w = w[:1] + strings.ToLower(w[1:])
				}
				if r.Intn(4) == 0 {
					w = " " + w + " "
				}
				return w
			}
			if m&2 != 0 {
				s := word()
				dt.Name = &s
			}
			if m&4 != 0 {
				s := word()
				dt.Description = &s
			}
			doc.Metadata.DocumentTypes = append(doc.Metadata.DocumentTypes, dt)
		}
		r.Shuffle(len(doc.Metadata.DocumentTypes), func(i, j int) {
			doc.Metadata.DocumentTypes[i], doc.Metadata.DocumentTypes[j] = doc.Metadata.DocumentTypes[j], doc.Metadata.DocumentTypes[i]
		})
		if r.Intn(2) == 0 { // a single subset per document so that each one reaches the serializer's own branch
			doc.Metadata.DocumentTypes = doc.Metadata.DocumentTypes[:1]
		}
	case 10:
		desc = "version-not-a-number"
		doc.Metadata.Version = gen.Pick(r, []string{"", "x", "-1", "99999999999999999999", "1.5"})
	}
	if utf8Only && r.Intn(2) == 0 {
		// the shape protobuf decoding produces
		if b, err := proto.Marshal(doc); err == nil {
			d2 := &sbom.Document{}
			if proto.Unmarshal(b, d2) == nil {
				return d2, desc + "/decoded"
			}
		}
	}
	return doc, desc
}

// normalise: decode to generic JSON, drop creation timestamps, sort ALL arrays by canonical encoding.
func c07Normalise(b []byte) (string, error) {
	var v any
	if err := json.Unmarshal(b, &v); err != nil {
		return "", err
	}
	var norm func(v any) any
	norm = func(v any) any {
		switch t := v.(type) {
		case map[string]any:
			delete(t, "created")
			delete(t, "timestamp")
			for k, x := range t {
				t[k] = norm(x)
			}
			return t
		case []any:
			enc := make([]string, len(t))
			for i, x := range t {
				t[i] = norm(x)
				bb, _ := json.Marshal(t[i])
				enc[i] = string(bb)
			}
			sort.Strings(enc)
			out := make([]any, len(enc))
			for i, e := range enc {
				out[i] = json.RawMessage(e)
			}
			return out
		}
		return v
	}
	out, err := json.Marshal(norm(v))
	return string(out), err
}

func init() {
	core.Register(&core.Prop{
		ID: "C07", Level: "exploration",
		Rule: "each case builds 4 Document values (variant k mod 12 forced for the first: nil metadata, nil node list, both nil, NewDocument, no roots, many roots, cyclic containment, random cyclic containment below several top-level components (serialized 11 times), dangling root, nil maps/slices, every subset of DocumentType's optional fields (names and descriptions arbitrary or spelling one of the enumeration's words), non-numeric version, plain populated; " +
			"reflection-populated fields, unknown enum numbers, empty/duplicate/generated ids, dangling edge endpoints, arbitrary text incl. invalid UTF-8; half of them passed through proto.Marshal/Unmarshal) and serializes them in all 8 registered formats (CycloneDX 1.0-1.5, SPDX 2.3, SPDX 3 beta) " +
			"in the schedule d0,d1,d0,d2,d3,d0 inside a supervised child: recover() catches panics, the parent attributes process deaths, the CPU/heap watchdog decides hangs; the three outputs of d0 per format must be equal after removing creation timestamps and sorting all arrays; " +
			"the serialized document must be unchanged. Nodes also carry several identifiers competing for one output slot (one possibly empty), identifiers that look like generated ones (reserved prefix with the separator missing, empty flags, bare separators), present-but-empty map values, empty and repeated list elements. Every third block of 12 cases then changes the same Document object in place (fields edited, a node added, or refilled with another document) between two serializations per format and compares with the output of a fresh copy. distinct = hash of (variant, d0); non-trivial = d0 has nodes or lacks metadata/node list.",
		Assumptions: []string{"nil elements inside repeated message fields are not generated (not a value protobuf decoding produces)", "determinism is compared modulo the order of ALL arrays (coarser than set-valued arrays only)"},
		NCases: func(tier string) int {
			if tier == "thorough" {
				return 200000
			}
			return 9000
		},
		Case:    c07Case,
		CaseCPU: 30,
	})
}

func c07Case(c *core.C) {
	r := c.R
	var docs []*sbom.Document
	var descs []string
	for i := 0; i < 4; i++ {
		v := c.K
		if i > 0 {
			v = r.Intn(12)
		}
		d, desc := c07Doc(r, v)
		docs, descs = append(docs, d), append(descs, desc)
	}
	c.Cover("variant:" + descs[0])
	c.DistinctStr(fmt.Sprint(c.K%12, docs[0]))
	if c.WantSample() && c.K%12 >= 4 {
		s := docs[0].String()
		c.Sample(map[string]any{"variant": descs[0], "document": s[:min(len(s), 400)]})
	}
	snap := gen.Clone(docs[0])
	schedule := []int{0, 1, 0, 2, 3, 0}
	if c.K%12 == 6 || c.K%12 == 11 {
		// cyclic containment: the outcome may depend on map iteration order, so repeat more often
		schedule = []int{0, 1, 0, 0, 2, 0, 0, 3, 0, 0, 0, 0, 0, 0}
	}
	for _, f := range c07Formats {
		var outs0 []string
		var errs0 []string
		for _, di := range schedule {
			d := docs[di]
			det := map[string]any{"format": string(f), "variant": descs[di], "document": d.String()}
			var out []byte
			var err error
			if guard(c, "write["+string(f)+"]", det, func() { out, err = writeDoc(d, f, 2) }) {
				return
			}
			c.Evals(1)
			if err == nil {
				c.Cover("outcome:output")
			} else {
				c.Cover("outcome:error")
			}
			if di == 0 {
				if err != nil {
					errs0 = append(errs0, "error")
					outs0 = append(outs0, "")
					continue
				}
				errs0 = append(errs0, "ok")
				n, nerr := c07Normalise(out)
				if nerr != nil {
					c.Violatef("output-not-json:"+string(f), det, "serializer produced output that is not JSON: %v", nerr)
					return
				}
				outs0 = append(outs0, n)
			}
		}
		for i := 1; i < len(outs0); i++ {
			if errs0[i] != errs0[0] || outs0[i] != outs0[0] {
				c.Violatef("nondeterministic:"+string(f), map[string]any{"format": string(f), "document": docs[0].String(), "first": outs0[0], "later": outs0[i]},
					"serializing the same document as %s gave a different result at position %d of the schedule (%s vs %s)", f, i, errs0[0], errs0[i])
				return
			}
		}
	}
	if !proto.Equal(snap, docs[0]) {
		c.Violatef("serializer-mutates-document", nil, "a serializer changed the document it was given")
		return
	}
	if c.K%8 == 5 && docs[0].GetNodeList() != nil && len(docs[0].NodeList.Nodes) > 0 {
		c07History(c, docs[0], descs[0])
	}
	if (c.K/12)%3 == 1 {
		// the same Document object, changed in place (or refilled with another document's content) and serialized
		// again: the output must be that of a fresh copy of the value it holds now
		d := docs[0]
		for fi, f := range c07Formats {
			det := map[string]any{"format": string(f), "variant": descs[0], "document": d.String()}
			if guard(c, "write["+string(f)+"]", det, func() { _, _ = writeDoc(d, f, 2) }) {
				return
			}
			how := "fields edited"
			if (fi+c.K/4)%3 == 0 {
				proto.Reset(d)
				proto.Merge(d, docs[1+fi%3])
				how = "refilled with another document"
			} else {
				if d.Metadata != nil {
					d.Metadata.Name += "-changed"
					d.Metadata.Version = fmt.Sprintf("%d", 2+fi)
				}
				for _, n := range d.GetNodeList().GetNodes() {
					n.Name += fmt.Sprintf("-changed%d", fi)
					n.Version += ".1"
				}
				if d.NodeList != nil && len(d.NodeList.RootElements) > 0 {
					id := fmt.Sprintf("added-%d", fi)
					d.NodeList.Nodes = append(d.NodeList.Nodes, &sbom.Node{Id: id, Name: id, Type: sbom.Node_PACKAGE})
					d.NodeList.Edges = append(d.NodeList.Edges, &sbom.Edge{From: d.NodeList.RootElements[0], Type: sbom.Edge_contains, To: []string{id}})
				}
			}
			det = map[string]any{"format": string(f), "variant": descs[0], "document": d.String(), "change": how}
			var o1, o2 []byte
			var e1, e2 error
			if guard(c, "write["+string(f)+"]", det, func() { o1, e1 = writeDoc(d, f, 2) }) {
				return
			}
			fresh := gen.Clone(d)
			if guard(c, "write["+string(f)+"]", det, func() { o2, e2 = writeDoc(fresh, f, 2) }) {
				return
			}
			c.Evals(2)
			c.Cover("same-object-serialized-again-after-in-place-change")
			if (e1 == nil) != (e2 == nil) {
				c.Violatef("stale-after-in-place-change:"+string(f), det, "a document object (%s) serialized as %s gave error=%v, a fresh copy of the same value error=%v", how, f, e1, e2)
				return
			}
			if e1 == nil {
				n1, x1 := c07Normalise(o1)
				n2, x2 := c07Normalise(o2)
				if x1 == nil && x2 == nil && n1 != n2 {
					c.Violatef("stale-after-in-place-change:"+string(f), det, "a document object (%s since its last serialization) serialized as %s differs from the output of a fresh copy of the same value", how, f)
					return
				}
			}
		}
	}
}

// c07History: "independently of whatever was serialized before", decided against a process without a before. A
// sibling of the document - same identifiers, names and supplier names, other nested details (contacts, comments,
// digests, descriptions) - is serialized first, then the document itself; a fresh child process serializes the
// document alone. The two must agree in every format.
func c07History(c *core.C, d *sbom.Document, desc string) {
	r := c.R
	sib := gen.Clone(d)
	tweak := func(p *sbom.Person) {
		for _, ct := range p.Contacts {
			ct.Email, ct.Phone, ct.Name = "sibling@example.org", "+00 000", ct.Name+"-sibling"
		}
		p.Contacts = append(p.Contacts, &sbom.Person{Name: "sibling-contact", Email: "s@example.org"})
		p.Email, p.Url, p.Phone = "sibling@example.org", "https://sibling.example", "+00 111"
	}
	for _, n := range sib.NodeList.Nodes {
		for _, p := range n.Suppliers {
			tweak(p)
		}
		for _, p := range n.Originators {
			tweak(p)
		}
		for _, e := range n.ExternalReferences {
			e.Comment += " (sibling)"
			for k := range e.Hashes {
				e.Hashes[k] = "5151" + e.Hashes[k]
			}
		}
		for k := range n.Hashes {
			n.Hashes[k] = "5151" + n.Hashes[k]
		}
		n.Description, n.Comment, n.Copyright = n.Description+" sibling", n.Comment+" sibling", n.Copyright+" sibling"
		n.Licenses = append(n.Licenses, "LicenseRef-sibling")
	}
	if sib.Metadata != nil {
		for _, p := range sib.Metadata.Authors {
			tweak(p)
		}
		for _, t := range sib.Metadata.Tools {
			t.Version += "-sibling"
		}
	}
	b, err := proto.Marshal(d)
	if err != nil {
		return
	}
	f, err := os.CreateTemp(os.Getenv("VCHECK_SCRATCH"), "c07-doc-")
	if err != nil {
		return
	}
	defer os.Remove(f.Name())
	_, _ = f.Write(b)
	f.Close()
	exe, _ := os.Executable()
	out, runErr := exec.Command(exe, "c07one", f.Name()).Output()
	if _, exited := runErr.(*exec.ExitError); runErr != nil && !exited {
		c.Violatef("harness-child", nil, "c07one child not started: %v", runErr)
		return
	}
	fresh := map[string]string{}
	for _, ln := range strings.Split(string(out), "\n") {
		fs := strings.SplitN(ln, "\t", 3)
		if len(fs) == 3 && fs[0] == "FMT" {
			fresh[fs[1]] = fs[2]
		}
	}
	if len(fresh) != len(c07Formats) {
		c.Cover("fresh-process-serialization-died(not judged here; totality is judged in process)")
		return
	}
	_ = r
	for _, fm := range c07Formats {
		det := map[string]any{"format": string(fm), "variant": desc, "document": d.String()}
		if guard(c, "write["+string(fm)+"]", det, func() { _, _ = writeDoc(sib, fm, 2) }) {
			return
		}
		var o []byte
		var werr error
		if guard(c, "write["+string(fm)+"]", det, func() { o, werr = writeDoc(d, fm, 2) }) {
			return
		}
		c.Evals(1)
		c.Cover("compared-with-a-fresh-process")
		if got := c07Digest(o, werr); got != fresh[string(fm)] {
			c.Violatef("depends-on-history:"+string(fm), det, "the %s output of a document serialized after a sibling (same identifiers and names, other details) differs from its output in a fresh process: %s vs %s", fm, got, fresh[string(fm)])
			return
		}
	}
}

func c07Digest(out []byte, err error) string {
	if err != nil {
		return "error"
	}
	n, nerr := c07Normalise(out)
	if nerr != nil {
		return "not-json"
	}
	h := sha256.Sum256([]byte(n))
	return fmt.Sprintf("ok:%x", h[:12])
}

func init() {
	extraCmds["c07one"] = func(args []string) int {
		if len(args) < 1 {
			return 2
		}
		b, err := os.ReadFile(args[0])
		d := &sbom.Document{}
		if err != nil || proto.Unmarshal(b, d) != nil {
			fmt.Println("HARNESS cannot read document")
			return 3
		}
		for _, fm := range c07Formats {
			o, werr := writeDoc(d, fm, 2)
			fmt.Printf("FMT\t%s\t%s\n", fm, c07Digest(o, werr))
		}
		return 0
	}
}
