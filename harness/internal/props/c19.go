package props

import (
	"bytes"
	"crypto/sha256"
	"encoding/json"
	"fmt"
	"math/rand"
	"os"
	"os/exec"
	"path/filepath"
	"sort"
	"strings"
	"syscall"

	"github.com/protobom/protobom/pkg/sbom"
	"google.golang.org/protobuf/proto"
	"verifharness/internal/core"
	"verifharness/internal/gen"
	"verifharness/internal/ptrace"
)

// C19 — file-system store: round trip, isolation, confinement, error returns
// (history monitor with a map model; children run as an unprivileged uid; faults on disk and injected errnos).

var c19IDs = []string{
	"urn:uuid:plain-1", "urn:uuid:plain-2", "../../../etc/passwd", "a/b/c", "/abs/path/doc", "..", ".", "dir/../x", "ünï-çødé/🙂", "with space", "with\nnewline", "C:\\windows\\path",
	"LONG", "",
}

// c19Twins: distinct identifiers that some "sanitising" step would map to the same key
// (path cleaning, slash/case folding, trimming, URL escaping, Unicode normalisation).
var c19Twins = [][]string{
	{"acme/../widget", "widget", "./widget", "widget/", "acme//../widget"},
	{"https://example.com/sbom//1", "https:/example.com/sbom/1", "https://example.com/sbom/1"},
	{"Doc-A", "doc-a", "DOC-A"},
	{" padded", "padded", "padded ", "padded\n"},
	{"a%2Fb", "a/b", "a\\b"},
	{"caf\u00e9", "cafe\u0301"},
	{"x", "x\x00", "x."},
}

func c19ID(r *rand.Rand) string {
	if r.Intn(3) == 0 {
		return gen.Pick(r, gen.Pick(r, c19Twins))
	}
	id := c19IDs[r.Intn(len(c19IDs))]
	if id == "LONG" {
		return "long-" + strings.Repeat("x", 1<<20)
	}
	return id
}

func c19Doc(r *rand.Rand, id string) *sbom.Document {
	o := gen.DefaultPop()
	o.PFill = 0.5
	o.Text = func(r *rand.Rand) string { return gen.ValidUTF8Any(r, 8) }
	d := sbom.NewDocument()
	gen.Populate(r, d.Metadata.ProtoReflect(), o)
	d.Metadata.Id = id
	for i := 0; i < r.Intn(5); i++ {
		d.NodeList.Nodes = append(d.NodeList.Nodes, gen.Node(r, fmt.Sprintf("n%d", i), o))
	}
	if len(d.NodeList.Nodes) > 1 {
		d.NodeList.Edges = []*sbom.Edge{{From: "n0", Type: sbom.Edge_contains, To: []string{"n1"}}}
		d.NodeList.RootElements = []string{"n0"}
	}
	// the shape decoding produces (so that proto.Equal against a retrieved copy is meaningful)
	b, _ := proto.Marshal(d)
	d2 := &sbom.Document{}
	_ = proto.Unmarshal(b, d2)
	return d2
}

// c19SameSize returns a document that differs from prev in one character and encodes to exactly as many bytes
// (a version bump from 1.0.1 to 1.0.2): an overwrite that a size-based shortcut would skip. nil when prev has no
// text to change.
func c19SameSize(r *rand.Rand, prev *sbom.Document) *sbom.Document {
	if prev == nil || prev.Metadata == nil {
		return nil
	}
	d := gen.Clone(prev)
	bump := func(s *string) bool {
		if n := len(*s); n > 0 && (*s)[n-1] < 0x7f && (*s)[n-1] >= 0x20 {
			last := (*s)[n-1]
			repl := byte('0' + r.Intn(10))
			if repl == last {
				repl = 'x'
			}
			*s = (*s)[:n-1] + string(repl)
			return true
		}
		return false
	}
	cands := []*string{&d.Metadata.Version, &d.Metadata.Name, &d.Metadata.Comment}
	for _, n := range d.GetNodeList().GetNodes() {
		cands = append(cands, &n.Name, &n.Version)
	}
	r.Shuffle(len(cands), func(i, j int) { cands[i], cands[j] = cands[j], cands[i] })
	for _, cnd := range cands {
		if bump(cnd) {
			if proto.Size(d) == proto.Size(prev) && !proto.Equal(d, prev) {
				return d
			}
			return nil
		}
	}
	return nil
}

// treeState: every file below root with a content hash.
func treeState(root string) map[string]string {
	out := map[string]string{}
	_ = filepath.Walk(root, func(p string, info os.FileInfo, err error) error {
		if err != nil || info.IsDir() {
			return nil
		}
		b, _ := os.ReadFile(p)
		out[p] = fmt.Sprintf("%x", sha256.Sum256(b))
		return nil
	})
	return out
}

func entryName(id string) string { return fmt.Sprintf("%x.protobom", sha256.Sum256([]byte(id))) }

func init() {
	core.Register(&core.Prop{
		ID: "C19", Level: "exploration",
		Rule: "each case is a history of <=10 Store/Retrieve calls (two thirds of the cases: one fresh child process per call; one third: the whole history in ONE process on one FileSystem instance, sometimes with a second instance on the same directory, so that state kept inside the backend is observed; uid 65534; the FileSystem backend directly or through writer.Writer.Store / reader.Reader.Retrieve) against a map model id->document: configured directory missing (one or three levels deep) or existing; identifiers with path separators, dot-dot, absolute paths, unicode, newline, 1 MB, empty, and groups of distinct identifiers that a normalisation step (path cleaning, case folding, trimming, escaping, Unicode normalisation) would collapse; both no-clobber settings; nil options. " +
			"After EVERY call: the result is compared with the model (proto.Equal), every known id is retrieved again (isolation), the scratch tree around the configured path is listed with content hashes (confinement: every file lies inside the directory; no-clobber: existing entry bytes unchanged). " +
			"Fault steps: unknown id, entry chmod 000, a directory in place of the entry, 0-byte / truncated / bit-flipped entry, and - under the ptrace injector - EACCES/EIO/ENOSPC/EMFILE on the k-th file-system syscall of a Store or Retrieve for EVERY k of the fault-free run; " +
			"every outcome must be a document or an error RETURN: never a dead process, neither/both, or an empty document. A sample of stores runs under the tracer to check that every created/renamed path is under the directory. Half of the overwrites store a one-character variant of the stored document with the same encoded size; a quarter of the in-process histories switch the live instance's directory back and forth between two directories, each with its own model and entry count. distinct = hash of the history; non-trivial = history with >=2 different ids stored.",
		Assumptions: []string{"a corrupted entry that still decodes to a non-empty document carrying the requested id is tolerated (the statement forbids exits, panics and silently EMPTY documents)", "children run as uid 65534 on a scratch tree they own (as root the directory-mode defect would be invisible)"},
		NCases: func(tier string) int {
			if tier == "thorough" {
				return 12000
			}
			return 480
		},
		Case:      c19Case,
		CaseCPU:   600,
		MustCover: []string{"errno-injection-trials", "traced-stores(confinement)"},
	})
}

func c19Case(c *core.C) {
	r := c.R
	if !unprivPreflight(c) {
		return
	}
	base, err := scratchBase(c, "c19-", c.K%4 == 3)
	if err != nil {
		c.Violatef("harness-scratch", nil, "no scratch dir: %v", err)
		return
	}
	defer os.RemoveAll(base)
	_ = os.Chmod(base, 0o755)
	outer := filepath.Join(base, "outer")
	_ = os.MkdirAll(filepath.Join(outer, "sibling"), 0o755)
	writeFileAll(filepath.Join(outer, "sibling", "keep.txt"), []byte("keep"))
	dirKind := c.K % 3
	var store string
	switch dirKind {
	case 0:
		store = filepath.Join(outer, "store") // missing
	case 1:
		store = filepath.Join(outer, "a", "b", "store") // missing, nested
	default:
		store = filepath.Join(outer, "store")
		_ = os.MkdirAll(store, 0o755)
	}
	c.Cover(fmt.Sprintf("directory-kind:%d", dirKind))
	chownR(base)
	model := map[string]*sbom.Document{}
	trace := []string{}
	seq := 0
	putFile := func(b []byte) string {
		seq++
		p := filepath.Join(base, fmt.Sprintf("arg-%d", seq))
		writeFileAll(p, b)
		return p
	}
	short := func(id string) string {
		if len(id) > 40 {
			return id[:20] + fmt.Sprintf("…(%d bytes)", len(id))
		}
		return fmt.Sprintf("%q", id)
	}
	fail := func(sig, format string, a ...any) {
		if strings.HasSuffix(sig, ":HARNESS") {
			sig = "harness-child"
		}
		c.Violatef(sig, map[string]any{"history": trace, "directory_kind": dirKind}, "history %v: %s", trace, fmt.Sprintf(format, a...))
	}
	retrieveCheck := func(id string, want *sbom.Document, ctx string) bool {
		rargs := []string{"retrieveone", "-dir", store, "-idfile", putFile([]byte(id))}
		if r.Intn(3) == 0 {
			rargs = append(rargs, "-api") // through reader.Reader.Retrieve
			c.Cover("retrieve-through-reader-api")
		}
		o := runChild(true, rargs...)
		c.Evals(1)
		switch o.kind {
		case "DOC":
			if want == nil {
				fail("retrieve-unknown-returns-document", "%s: Retrieve(%s) of an identifier that was never stored returned a document (%d bytes) without error", ctx, short(id), proto.Size(o.doc))
				return false
			}
			if !proto.Equal(o.doc, want) {
				fail("retrieve-differs", "%s: Retrieve(%s) returned a document different from the stored one: %s", ctx, short(id), firstDiffDeep(want, o.doc))
				return false
			}
		case "ERR":
			if want != nil {
				fail("retrieve-error-for-stored", "%s: Retrieve(%s) of a stored document returned the error %q", ctx, short(id), o.msg)
				return false
			}
		case "DIED":
			fail("retrieve-process-died", "%s: Retrieve(%s) terminated the process instead of returning (%s)", ctx, short(id), o.msg)
			return false
		default:
			fail("retrieve-shape:"+o.kind, "%s: Retrieve(%s) returned %s %s", ctx, short(id), o.kind, o.msg)
			return false
		}
		return true
	}
	confinement := func(ctx string) bool {
		for p := range treeState(outer) {
			if !strings.HasPrefix(p, store+"/") && p != filepath.Join(outer, "sibling", "keep.txt") {
				fail("file-outside-directory", "%s: a file appeared outside the configured directory: %s", ctx, p)
				return false
			}
		}
		return true
	}
	if c.K%3 == 1 {
		c19InProcess(c, base, outer, store, dirKind)
		return
	}
	steps := 3 + r.Intn(8)
	idsStored := gen.Set{}
	for s := 0; s < steps; s++ {
		id := c19ID(r)
		noclobber := r.Intn(3) == 0
		doc := c19Doc(r, id)
		if r.Intn(2) == 0 {
			if d2 := c19SameSize(r, model[id]); d2 != nil {
				doc = d2
				c.Cover("overwrite-with-a-different-document-of-the-same-encoded-size")
			}
		}
		if id == "" && r.Intn(2) == 0 {
			doc.Metadata = nil // no metadata message at all: still "a document without identifier"
			c.Cover("store-without-metadata")
		}
		b, _ := proto.Marshal(doc)
		before := treeState(outer)
		args := []string{"storeone", "-dir", store, "-docfile", putFile(b)}
		if noclobber {
			args = append(args, "-noclobber")
		} else if r.Intn(4) == 0 {
			args = append(args, "-nilopts")
		}
		if r.Intn(3) == 0 {
			args = append(args, "-api") // through writer.Writer.Store
			c.Cover("store-through-writer-api")
		}
		step := fmt.Sprintf("Store(%s%s)", short(id), map[bool]string{true: ",no-clobber", false: ""}[noclobber])
		trace = append(trace, step)
		var o childOut
		if r.Intn(3) == 0 && id != "" {
			// this store runs under the tracer: confinement by syscall log
			p := ptrace.NoFault(store)
			res, err := ptrace.Run(childCmd(true, args...), p)
			if err != nil || res == nil {
				fail("harness-tracer", "tracer failed: %v", err)
				return
			}
			c.Cover("traced-stores(confinement)")
			for _, ap := range res.AllPaths {
				f := strings.Fields(ap)
				for _, pth := range f[1:] {
					if strings.HasPrefix(pth, "/") && !strings.HasPrefix(pth, store) && !strings.HasPrefix(store, pth) && !strings.HasPrefix(pth, "/dev/") && !strings.HasPrefix(pth, "/proc/") && !strings.HasPrefix(pth, "/sys/") {
						fail("syscall-outside-directory", "%s: the storing process created/changed a path outside the configured directory: %s", step, ap)
						return
					}
				}
			}
			// the tracer swallowed stdout? no: the child inherits nothing; re-derive the outcome from the exit code
			if res.ExitCode == 0 {
				o = childOut{kind: "OK"}
			} else if res.ExitCode == 1 {
				o = childOut{kind: "ERR", msg: "(traced child, exit 1)"}
			} else {
				o = childOut{kind: "DIED", msg: fmt.Sprintf("traced child exit %d %s", res.ExitCode, res.Signal)}
			}
		} else {
			o = runChild(true, args...)
		}
		c.Evals(1)
		c.Cover("op:store")
		_, existed := model[id]
		switch {
		case o.kind == "HARNESS":
			fail("harness-child", "%s: %s", step, o.msg)
			return
		case o.kind == "DIED":
			fail("store-process-died", "%s terminated the process: %s", step, o.msg)
			return
		case id == "":
			c.Cover("store-without-id")
			if o.kind != "ERR" {
				fail("store-without-id-accepted", "%s: storing a document without identifier returned %s", step, o.kind)
				return
			}
		case noclobber && existed:
			c.Cover("no-clobber-on-existing")
			if o.kind != "ERR" {
				fail("no-clobber-not-refused", "%s: an entry exists and no-clobber is set, yet Store returned %s", step, o.kind)
				return
			}
			// nothing in the directory may have changed (the refused store must not touch any entry)
			after := treeState(outer)
			for p, h := range before {
				if strings.HasPrefix(p, store+"/") && after[p] != h {
					fail("no-clobber-entry-changed", "%s: an existing entry's bytes changed although no-clobber is set (%s)", step, filepath.Base(p))
					return
				}
			}
		default:
			if o.kind != "OK" {
				fail("store-failed:dir-kind-"+fmt.Sprint(dirKind), "%s into %s failed: %s (a missing directory must be created and then be usable)", step, strings.TrimPrefix(store, outer), o.msg)
				return
			}
			model[id] = doc
			idsStored.Add(id)
		}
		if !confinement(step) {
			return
		}
		// isolation: every known id still returns its own document
		keys := []string{}
		for k := range model {
			keys = append(keys, k)
		}
		sort.Strings(keys)
		for _, k := range keys {
			if !retrieveCheck(k, model[k], "after "+step) {
				return
			}
		}
		// retrieve of something never stored
		if r.Intn(2) == 0 {
			unk := "urn:uuid:never-stored-" + fmt.Sprint(r.Intn(1000))
			trace = append(trace, "Retrieve("+unk+")")
			c.Cover("op:retrieve-unknown")
			if !retrieveCheck(unk, nil, "unknown id") {
				return
			}
		}
	}
	if r.Intn(2) == 0 {
		trace = append(trace, "Retrieve(\"\")")
		o := runChild(true, "retrieveone", "-dir", store, "-idfile", putFile(nil))
		c.Evals(1)
		if o.kind != "ERR" {
			fail("retrieve-empty-id:"+o.kind, "Retrieve of the empty identifier returned %s %s", o.kind, o.msg)
			return
		}
	}
	if len(idsStored) >= 2 {
		c.DistinctStr(strings.Join(trace, ";")[:min(2000, len(strings.Join(trace, ";")))])
		if c.WantSample() && len(strings.Join(trace, ";")) < 600 {
			c.Sample(map[string]any{"history": trace, "directory": strings.TrimPrefix(store, outer)})
		}
	}
	// ---------------- fault steps on one stored entry
	var victim string
	for k := range model {
		if len(k) < 100 {
			victim = k
		}
	}
	if victim == "" {
		return
	}
	// locate the victim's entry by content, not by assuming how entries are named
	ent := ""
	var orig []byte
	for p := range treeState(store) {
		b, rerr := os.ReadFile(p)
		if rerr != nil {
			continue
		}
		d := &sbom.Document{}
		if proto.Unmarshal(b, d) == nil && proto.Equal(d, model[victim]) {
			ent, orig = p, b
		}
	}
	if ent == "" {
		c.Inconclusive("cannot locate the entry file of the victim identifier in the store directory (storage layout changed?)")
		return
	}
	restore := func() {
		_ = os.RemoveAll(ent)
		writeFileAll(ent, orig)
		_ = os.Chown(ent, unprivUID, unprivUID)
		_ = os.Chmod(ent, 0o644)
	}
	faults := []struct {
		name  string
		apply func()
	}{
		{"chmod-000", func() { _ = os.Chmod(ent, 0) }},
		{"directory-in-place", func() { _ = os.Remove(ent); _ = os.Mkdir(ent, 0o755); _ = os.Chown(ent, unprivUID, unprivUID) }},
		{"zero-bytes", func() { writeFileAll(ent, nil) }},
		{"truncated", func() { writeFileAll(ent, orig[:r.Intn(len(orig)+1)]) }},
		{"bit-flip", func() {
			b := append([]byte{}, orig...)
			if len(b) > 0 {
				b[r.Intn(len(b))] ^= 1 << uint(r.Intn(8))
			}
			writeFileAll(ent, b)
		}},
		{"garbage", func() { g := make([]byte, 50+r.Intn(200)); r.Read(g); writeFileAll(ent, g) }},
	}
	for _, f := range faults {
		f.apply()
		_ = os.Chown(ent, unprivUID, unprivUID)
		o := runChild(true, "retrieveone", "-dir", store, "-idfile", putFile([]byte(victim)))
		c.Evals(1)
		c.Cover("fault:" + f.name)
		ctx := fmt.Sprintf("entry of %s under fault %s", short(victim), f.name)
		switch o.kind {
		case "ERR":
			c.Cover("fault-outcome:error-return")
		case "DOC":
			if proto.Size(o.doc) == 0 || o.doc.GetMetadata().GetId() == "" {
				fail("silently-empty-document:"+f.name, "%s: Retrieve returned an empty document and no error", ctx)
				restore()
				return
			}
			if f.name == "chmod-000" || f.name == "directory-in-place" {
				fail("unreadable-entry-returns-document", "%s: Retrieve returned a document", ctx)
				restore()
				return
			}
			c.Cover("fault-outcome:document(decodes, non-empty)")
		case "DIED":
			fail("retrieve-process-died", "%s: Retrieve terminated the process instead of returning (%s)", ctx, o.msg)
			restore()
			return
		default:
			fail("retrieve-shape:"+o.kind, "%s: Retrieve returned %s", ctx, o.kind)
			restore()
			return
		}
		// a damaged entry is still an existing entry: a no-clobber store must refuse and leave its bytes alone
		if f.name != "chmod-000" && f.name != "directory-in-place" {
			before, _ := os.ReadFile(ent)
			nd := c19Doc(r, victim)
			nb, _ := proto.Marshal(nd)
			so := runChild(true, "storeone", "-dir", store, "-docfile", putFile(nb), "-noclobber")
			after, _ := os.ReadFile(ent)
			c.Evals(1)
			c.Cover("no-clobber-store-on-a-damaged-entry")
			if so.kind == "HARNESS" {
				fail("harness-child", "%s: %s", ctx, so.msg)
				restore()
				return
			}
			if so.kind == "OK" || !bytes.Equal(before, after) {
				fail("no-clobber-replaced-damaged-entry:"+f.name, "%s: Store with no-clobber returned %s and the entry's bytes %s", ctx, so.kind, map[bool]string{true: "are unchanged", false: "were replaced"}[bytes.Equal(before, after)])
				restore()
				return
			}
		}
		restore()
	}
	// ---------------- injected errnos at every file-system syscall of one Retrieve and one Store
	errnos := []syscall.Errno{syscall.EACCES, syscall.EIO, syscall.ENOSPC, syscall.EMFILE}
	for _, which := range []string{"retrieve", "store"} {
		mk := func() []string {
			if which == "retrieve" {
				return []string{"retrieveone", "-dir", store, "-idfile", putFile([]byte(victim))}
			}
			b, _ := proto.Marshal(model[victim])
			return []string{"storeone", "-dir", store, "-docfile", putFile(b)}
		}
		dry, err := ptrace.Run(childCmd(true, mk()...), ptrace.NoFault(store))
		if err != nil || dry == nil {
			fail("harness-tracer", "tracer failed: %v", err)
			return
		}
		for _, e := range dry.Events {
			if !e.Entry {
				continue
			}
			en := errnos[(e.Stop/2+c.K)%len(errnos)]
			if c.Thorough() {
				en = errnos[r.Intn(len(errnos))]
			}
			p := ptrace.NoFault(store)
			p.ErrnoAt, p.Errno = e.Stop, int(en)
			res, err := ptrace.Run(childCmd(true, mk()...), p)
			if err != nil || res == nil {
				fail("harness-tracer", "tracer failed: %v", err)
				return
			}
			c.Evals(1)
			c.Cover("errno-injection-trials")
			c.Cover("errno-injected-at:" + which + ":" + e.Name)
			ctx := fmt.Sprintf("%s of %s with %v injected at %s(%s)", which, short(victim), en, e.Name, filepath.Base(e.Path))
			if res.ExitCode != 0 && res.ExitCode != 1 || (which == "retrieve" && res.ExitCode == 1) {
				fail("process-died-on-io-error:"+which, "%s: the process terminated (exit %d %s) instead of returning an error", ctx, res.ExitCode, res.Signal)
				restore()
				return
			}
			// whatever happened, the entry must afterwards be retrievable or yield an error return, never an empty document
			o := runChild(true, "retrieveone", "-dir", store, "-idfile", putFile([]byte(victim)))
			if o.kind == "HARNESS" {
				fail("harness-child", "%s: %s", ctx, o.msg)
				restore()
				return
			}
			if o.kind == "DIED" || o.kind == "NEITHER" || o.kind == "BOTH" || (o.kind == "DOC" && (proto.Size(o.doc) == 0 || !proto.Equal(o.doc, model[victim]))) {
				fail("entry-damaged-by-io-error:"+which, "%s: afterwards Retrieve gives %s %s", ctx, o.kind, o.msg)
				restore()
				return
			}
			// a Store that reports success in spite of the injected failure has promised a retrievable document
			if which == "store" && res.ExitCode == 0 {
				c.Cover("store-succeeded-despite-injected-error")
				if o.kind != "DOC" {
					fail("store-reported-success-after-io-error", "%s: Store returned no error, but afterwards Retrieve gives %s %s", ctx, o.kind, o.msg)
					restore()
					return
				}
			}
			restore()
		}
	}
}

// c19InProcess: the whole history runs in ONE child process on one FileSystem instance (plus, sometimes, a second
// instance on the same directory), so that state kept inside the backend between calls is part of what is observed.
func c19InProcess(c *core.C, base, outer, store string, dirKind int) {
	r := c.R
	type expect struct {
		kind string // ok | err | doc | err-or-ok
		doc  *sbom.Document
		desc string
	}
	var script []histStep
	var exps []expect
	model := map[string]*sbom.Document{}
	// a quarter of the histories reconfigure the live instance: its directory is switched back and forth between
	// two directories (the second one missing at first); each directory has its own model
	store2 := filepath.Join(outer, "store2")
	reconf := c.K%4 == 1
	models := map[string]map[string]*sbom.Document{store: model, store2: {}}
	curDir := store
	seq := 0
	put := func(b []byte) string {
		seq++
		p := filepath.Join(base, fmt.Sprintf("h-%d", seq))
		writeFileAll(p, b)
		return p
	}
	short := func(id string) string {
		if len(id) > 40 {
			return id[:20] + fmt.Sprintf("…(%d bytes)", len(id))
		}
		return fmt.Sprintf("%q", id)
	}
	ids := []string{c19ID(r), c19ID(r), "urn:uuid:hot"} // few ids: repeated stores of the same identifier
	steps := 4 + r.Intn(10)
	useSecond := r.Intn(3) == 0
	if reconf {
		useSecond = false
	}
	for s := 0; s < steps; s++ {
		id := ids[r.Intn(len(ids))]
		second := useSecond && r.Intn(2) == 0
		dirArg, dirDesc := "", ""
		if reconf {
			if r.Intn(3) == 0 {
				if curDir == store {
					curDir = store2
				} else {
					curDir = store
				}
			}
			model = models[curDir]
			dirArg = curDir
			dirDesc = "[Options.Path=" + filepath.Base(curDir) + "] "
		}
		if r.Intn(5) < 3 {
			doc := c19Doc(r, id)
			if r.Intn(2) == 0 {
				if d2 := c19SameSize(r, model[id]); d2 != nil {
					doc = d2
					c.Cover("overwrite-with-a-different-document-of-the-same-encoded-size")
				}
			}
			if id == "" && r.Intn(2) == 0 {
				doc.Metadata = nil
			}
			b, _ := proto.Marshal(doc)
			nc := r.Intn(4) == 0
			script = append(script, histStep{Op: "store", File: put(b), NoClobber: nc, Second: second, Dir: dirArg})
			_, existed := model[id]
			switch {
			case id == "":
				exps = append(exps, expect{kind: "err", desc: dirDesc + "Store(no id)"})
			case nc && existed:
				exps = append(exps, expect{kind: "err", desc: dirDesc + "Store(" + short(id) + ",no-clobber) on existing"})
			default:
				exps = append(exps, expect{kind: "ok", desc: dirDesc + "Store(" + short(id) + ")"})
				model[id] = doc
			}
		}
		// retrieve (known or unknown)
		rid := id
		if r.Intn(4) == 0 {
			rid = "urn:uuid:never-" + fmt.Sprint(r.Intn(100))
		}
		script = append(script, histStep{Op: "retrieve", File: put([]byte(rid)), Second: useSecond && r.Intn(2) == 0, Dir: dirArg})
		if d, ok := model[rid]; ok && rid != "" {
			exps = append(exps, expect{kind: "doc", doc: d, desc: dirDesc + "Retrieve(" + short(rid) + ")"})
		} else {
			exps = append(exps, expect{kind: "err", desc: dirDesc + "Retrieve(" + short(rid) + ") never stored"})
		}
	}
	if !reconf && r.Intn(3) == 0 {
		// eight documents with different identifiers stored by overlapping calls on the one instance, then
		// retrieved one by one: none may affect another
		var files []string
		var pdocs []*sbom.Document
		for j := 0; j < 8; j++ {
			d := c19Doc(r, fmt.Sprintf("urn:uuid:parallel-%d-%d", c.K, j))
			// documents of very different sizes, so that a buffer shared between calls shows
			for k := 0; k < j*7; k++ {
				d.NodeList.Nodes = append(d.NodeList.Nodes, &sbom.Node{Id: fmt.Sprintf("p%d-%d", j, k), Name: strings.Repeat(string(rune('a'+j)), 20)})
			}
			b, _ := proto.Marshal(d)
			d2 := &sbom.Document{}
			_ = proto.Unmarshal(b, d2)
			files = append(files, put(b))
			pdocs = append(pdocs, d2)
		}
		script = append(script, histStep{Op: "pstore", Files: files})
		exps = append(exps, expect{kind: "ok", desc: "8 overlapping Store calls (different identifiers)"})
		for _, d := range pdocs {
			script = append(script, histStep{Op: "retrieve", File: put([]byte(d.Metadata.Id))})
			exps = append(exps, expect{kind: "doc", doc: d, desc: "Retrieve(" + short(d.Metadata.Id) + ") after the overlapping stores"})
			model[d.Metadata.Id] = d
		}
		c.Cover("in-process-histories-with-overlapping-stores")
	}
	sb, _ := json.Marshal(script)
	chownR(base)
	cmd := childCmd(true, "storehist", "-dir", store, "-script", put(sb))
	out, runErr := cmd.CombinedOutput()
	if _, exited := runErr.(*exec.ExitError); runErr != nil && !exited {
		c.Violatef("harness-child", nil, "in-process history child not started: %v", runErr)
		return
	}
	c.Cover("in-process-histories")
	if reconf {
		c.Cover("in-process-histories-that-reconfigure-the-directory-of-a-live-instance")
	}
	if useSecond {
		c.Cover("in-process-histories-with-two-instances")
	}
	var trace []string
	for _, e := range exps {
		trace = append(trace, e.desc)
	}
	fail := func(sig, format string, a ...any) {
		c.Violatef(sig, map[string]any{"history": trace, "in_process": true, "two_instances": useSecond}, "in-process history %v: %s", trace, fmt.Sprintf(format, a...))
	}
	// split the output per step
	parts := strings.Split(string(out), "STEP ")
	results := map[int]childOut{}
	for _, p := range parts[1:] {
		var idx int
		fmt.Sscanf(p, "%d BEGIN", &idx)
		nl := strings.Index(p, "\n")
		if nl < 0 {
			continue
		}
		results[idx] = parseChildOutput([]byte(p[nl+1:]), 0, nil)
	}
	for i, e := range exps {
		c.Evals(1)
		o, ok := results[i]
		if !ok || o.kind == "DIED" {
			fail("in-process-died", "the process terminated at step %d (%s): %s", i, e.desc, strings.TrimSpace(string(out[max(0, len(out)-300):])))
			return
		}
		switch e.kind {
		case "ok":
			if o.kind != "OK" {
				fail("in-process-store-failed", "step %d %s returned %s %s", i, e.desc, o.kind, o.msg)
				return
			}
		case "err":
			if o.kind != "ERR" {
				fail("in-process-error-expected:"+strings.SplitN(e.desc, "(", 2)[0], "step %d %s returned %s instead of an error", i, e.desc, o.kind)
				return
			}
		case "doc":
			if o.kind != "DOC" {
				fail("in-process-retrieve-failed", "step %d %s returned %s %s", i, e.desc, o.kind, o.msg)
				return
			}
			if !proto.Equal(o.doc, e.doc) {
				fail("in-process-retrieve-differs", "step %d %s returned a document different from the last one stored under that identifier: %s", i, e.desc, firstDiffDeep(e.doc, o.doc))
				return
			}
		}
	}
	for p := range treeState(outer) {
		if !strings.HasPrefix(p, store+"/") && !(reconf && strings.HasPrefix(p, store2+"/")) && p != filepath.Join(outer, "sibling", "keep.txt") {
			fail("file-outside-directory", "a file appeared outside the configured directory: %s", p)
			return
		}
	}
	if reconf {
		// every directory holds exactly as many entries as its model (an entry written into the directory that was
		// configured EARLIER shows here even when no retrieve asked for it)
		for d, m := range models {
			n := 0
			for p := range treeState(outer) {
				if strings.HasPrefix(p, d+"/") {
					n++
				}
			}
			if n != len(m) {
				fail("entry-in-the-wrong-directory", "directory %s holds %d files, the history stored %d distinct identifiers there", filepath.Base(d), n, len(m))
				return
			}
		}
	}
	if len(models[store]) >= 2 {
		c.DistinctStr("inproc:" + strings.Join(trace, ";")[:min(1500, len(strings.Join(trace, ";")))])
	}
}
