package props

import (
	"fmt"
	"os"
	"path/filepath"
	"sort"
	"strings"

	"github.com/protobom/protobom/pkg/formats"
	"github.com/protobom/protobom/pkg/sbom"
	"verifharness/internal/core"
	"verifharness/internal/gen"
)

// C01 — SPDX 2.3 write→read round trip, compared through a canonical projection.

func noAssert(s string) string {
	if s == "NOASSERTION" {
		return ""
	}
	return s
}

func copyrightCanon(s string) string {
	s = strings.TrimSpace(s)
	if s == "NONE" || s == "NOASSERTION" {
		return ""
	}
	return s
}

func actorCanon(ps []*sbom.Person) string {
	if len(ps) == 0 {
		return ""
	}
	p := ps[0]
	s := p.Name
	if p.Email != "" {
		s = fmt.Sprintf("%s (%s)", p.Name, p.Email)
	}
	return fmt.Sprintf("org=%v:%s", p.IsOrg, s)
}

func sortedJoin(xs []string) string {
	ys := append([]string{}, xs...)
	sort.Strings(ys)
	return fmt.Sprintf("%q", ys)
}

func unixOf(t *timestampT) string {
	if t == nil {
		return ""
	}
	return fmt.Sprint(t.AsTime().Unix())
}

var spdxAlgoSet = func() map[int32]bool {
	m := map[int32]bool{}
	for _, a := range gen.SPDXHashAlgos {
		m[int32(a)] = true
	}
	return m
}()

var spdxExtRefSet = func() map[sbom.ExternalReference_ExternalReferenceType]bool {
	m := map[sbom.ExternalReference_ExternalReferenceType]bool{}
	for _, a := range gen.SPDXExtRefTypes {
		m[a] = true
	}
	return m
}()

// spdxProj: the attributes SPDX 2.3 can carry for a node, in canonical form.
// purposeIn: for the input side several purposes are legal (the output must be one of them).
func spdxProj(n *sbom.Node) map[string]string {
	m := map[string]string{}
	m["kind"] = n.Type.String()
	hs := []string{}
	for a, v := range n.Hashes {
		if spdxAlgoSet[a] {
			hs = append(hs, fmt.Sprintf("%d=%s", a, v))
		}
	}
	m["hashes"] = sortedJoin(hs)
	m["license_concluded"] = noAssert(n.LicenseConcluded)
	m["license_comments"] = n.LicenseComments
	m["copyright"] = copyrightCanon(n.Copyright)
	m["comment"] = n.Comment
	m["attribution"] = sortedJoin(n.Attribution)
	m["name"] = n.Name
	if n.Type == sbom.Node_FILE {
		m["file_types"] = sortedJoin(n.FileTypes)
		return m
	}
	m["version"] = n.Version
	m["file_name"] = n.FileName
	m["url_home"] = n.UrlHome
	m["url_download"] = noAssert(n.UrlDownload)
	m["source_info"] = n.SourceInfo
	m["summary"] = n.Summary
	m["description"] = n.Description
	ids := []string{}
	for k, v := range n.Identifiers {
		if k >= 1 && k <= 4 {
			ids = append(ids, fmt.Sprintf("%d=%s", k, v))
		}
	}
	m["identifiers"] = sortedJoin(ids)
	ers := []string{}
	for _, e := range n.ExternalReferences {
		if spdxExtRefSet[e.Type] && e.Url != "" {
			ers = append(ers, fmt.Sprintf("%d|%s|%s", e.Type, e.Url, e.Comment))
		}
	}
	m["external_references"] = sortedJoin(ers)
	m["release_date"] = unixOf(n.ReleaseDate)
	m["build_date"] = unixOf(n.BuildDate)
	m["valid_until_date"] = unixOf(n.ValidUntilDate)
	m["supplier"] = actorCanon(n.Suppliers)
	m["originator"] = actorCanon(n.Originators)
	return m
}

func purposeOK(in, out *sbom.Node) bool {
	if in.Type == sbom.Node_FILE {
		return true
	}
	var ins []sbom.Purpose
	for _, p := range in.PrimaryPurpose {
		if p != sbom.Purpose_UNKNOWN_PURPOSE {
			ins = append(ins, p)
		}
	}
	if len(ins) == 0 {
		return len(out.PrimaryPurpose) == 0
	}
	if len(out.PrimaryPurpose) != 1 {
		return false
	}
	for _, p := range ins {
		if p == out.PrimaryPurpose[0] {
			return true
		}
	}
	return false
}

// compareSPDX reports the first difference between the projections of in and out ("" when none).
func compareSPDX(in, out *sbom.Document) (sig, msg string) {
	if out == nil || out.NodeList == nil {
		return "no-nodelist", "parsed document has no node list"
	}
	inIDs, outIDs := gen.IDSet(in.NodeList), gen.IDSet(out.NodeList)
	if !inIDs.Equal(outIDs) || len(out.NodeList.Nodes) != len(in.NodeList.Nodes) {
		return "node-set", fmt.Sprintf("node set differs: missing %s, extra %s (%d nodes written, %d read)", gen.Minus(inIDs, outIDs), gen.Minus(outIDs, inIDs), len(in.NodeList.Nodes), len(out.NodeList.Nodes))
	}
	it, ot := gen.TripleSet(in.NodeList), gen.TripleSet(out.NodeList)
	if !it.Equal(ot) {
		return "edge-set", fmt.Sprintf("typed edge set differs: missing %s, extra %s", gen.Minus(it, ot), gen.Minus(ot, it))
	}
	ir, or := gen.RootSet(in.NodeList), gen.RootSet(out.NodeList)
	if !ir.Equal(or) {
		return "root-set", fmt.Sprintf("root elements differ: %s vs %s", ir, or)
	}
	for _, n := range in.NodeList.Nodes {
		o := nodeByID(out.NodeList, n.Id)
		pi, po := spdxProj(n), spdxProj(o)
		keys := []string{}
		for k := range pi {
			keys = append(keys, k)
		}
		sort.Strings(keys)
		for _, k := range keys {
			if pi[k] != po[k] {
				return "attr-" + strings.ToLower(pi["kind"]) + "-" + k, fmt.Sprintf("node %s (%s): %s written %s, read back %s", n.Id, pi["kind"], k, pi[k], po[k])
			}
		}
		if !purposeOK(n, o) {
			return "attr-package-primary_purpose", fmt.Sprintf("node %s: purpose written %v, read back %v", n.Id, n.PrimaryPurpose, o.PrimaryPurpose)
		}
	}
	return "", ""
}

var c01Indents = []int{0, 1, 2, 4, 8, 17}

func init() {
	core.Register(&core.Prop{
		ID: "C01", Level: "exploration",
		Rule: "case k draws a document of the SPDX-representable class: shape k mod 15 of the catalogue (singleton, chain, star, diamond, DAG, cycle, self-loop, several edges per source/type, several roots, no root, complete, all roots, random), " +
			"edge type 1+k mod 44 and checksum algorithm k mod 16 forced to occur, package and file nodes, every SPDX-carried attribute independently present, two-purpose packages, dates with nanoseconds, unicode text without JSON escapes; " +
			"written with indentation c01Indents[k mod 6] through writer.WriteStreamWithOptions, read back with reader.ParseStream, projections compared (node set, typed edge triples, roots, per-node attributes under the NOASSERTION/NONE conventions); a second write/read pass must change nothing. " +
			"Cases 0-5 re-serialize the repository's real SPDX 2.3 files twice. A quarter of the documents use short identifiers over {a,1,-} that are prefixes, suffixes and concatenations of one another, a quarter store their edges split into several records per source and type interleaved with other sources'; one date in twelve is the epoch. distinct = hash of the written bytes; non-trivial = >=2 nodes, >=1 edge and >=3 populated attributes on some node.",
		Assumptions: []string{"ids from the SPDX idstring alphabet; edge type != UNKNOWN; hash algorithm != MD2/UNKNOWN; external-reference types limited to the 8 SPDX carries natively with non-empty URL; supplier/originator names non-empty", "Node.licenses is not compared (SPDX packages have no licence list)"},
		NCases: func(tier string) int {
			if tier == "thorough" {
				return 150000
			}
			return 8800
		},
		Case: c01Case,
	})
}

func populatedAttrs(n *sbom.Node) int {
	c := 0
	for k, v := range spdxProj(n) {
		if k != "kind" && v != "" && v != "[]" {
			c++
		}
	}
	return c
}

var c01RealFiles = c03RealFiles[:6] // the SPDX 2.3 samples of the repository

// c01Real: a real SPDX file, parsed by protobom, must survive write -> read (projection) and be a fixed point.
func c01Real(c *core.C, path string) {
	raw, err := os.ReadFile(filepath.Join(repoDir(), path))
	if err != nil {
		c.Cover("real-file-missing")
		return
	}
	d0, err := parseAuto(raw)
	if err != nil {
		c.Cover("real-file-unparsed")
		return
	}
	if gen.WellFormed(d0.NodeList) != "" {
		c.Cover("real-file-parse-not-closed(external references; not in the class)")
		return
	}
	c.Cover("real-files")
	det := map[string]any{"file": path}
	cur := d0
	for pass := 1; pass <= 2; pass++ {
		var out []byte
		var next *sbom.Document
		if guard(c, "write-spdx23", det, func() { out, err = writeDoc(cur, formats.SPDX23JSON, 2) }) {
			return
		}
		if err != nil {
			c.Violatef("real-write-error", det, "writing the parsed %s as SPDX failed: %v", path, err)
			return
		}
		if guard(c, "read-spdx23", det, func() { next, err = parseAuto(out) }) {
			return
		}
		c.Evals(2)
		if err != nil {
			c.Violatef("real-read-error", det, "reading back the re-serialized %s failed: %v", path, err)
			return
		}
		if sig, msg := compareSPDX(cur, next); sig != "" {
			c.Violatef(fmt.Sprintf("real-pass%d-%s", pass, sig), det, "%s, pass %d: %s", path, pass, msg)
			return
		}
		c.DistinctBytes(out)
		cur = next
	}
}

func c01Case(c *core.C) {
	if c.K < len(c01RealFiles) {
		c01Real(c, c01RealFiles[c.K])
		return
	}
	maxNodes := 12
	if c.Thorough() {
		maxNodes = 40
	}
	doc, shape := gen.SPDXDoc(c.R, c.K, maxNodes)
	if c.R.Intn(4) == 0 {
		// the same graph stored differently: several records per source and type, interleaved with other sources'
		doc.NodeList.Edges = gen.SplitPresentation(c.R, doc.NodeList).Edges
		c.Cover("edges-split-and-interleaved")
	}
	indent := c01Indents[c.K%len(c01Indents)]
	c.Cover("shape:" + shape)
	if gen.IsRelatedIDs(doc.NodeList) {
		c.Cover("identifiers:short-and-related(prefixes, suffixes, concatenations of one another)")
	}
	c.Cover(fmt.Sprintf("edge-type:%d", 1+c.K%44))
	c.Cover(fmt.Sprintf("hash-algo:%d", int32(gen.SPDXHashAlgos[c.K%16])))
	c.Cover(fmt.Sprintf("indent:%d", indent))
	det := map[string]any{"document": doc.String(), "indent": indent}
	var out []byte
	var err error
	if guard(c, "write-spdx23", det, func() { out, err = writeDoc(doc, formats.SPDX23JSON, indent) }) {
		return
	}
	c.Evals(1)
	if err != nil {
		c.Violatef("write-error", det, "writing an SPDX-representable document failed: %v", err)
		return
	}
	nontrivial := len(doc.NodeList.Nodes) >= 2 && len(doc.NodeList.Edges) >= 1
	if nontrivial {
		rich := false
		for _, n := range doc.NodeList.Nodes {
			if populatedAttrs(n) >= 3 {
				rich = true
			}
		}
		if rich {
			c.DistinctBytes(out)
		}
	}
	if c.WantSample() && len(doc.NodeList.Nodes) >= 2 {
		c.Sample(map[string]any{"shape": shape, "graph": gen.Canon(doc.NodeList), "indent": indent, "bytes": len(out)})
	}
	var d1 *sbom.Document
	if guard(c, "read-spdx23", det, func() { d1, err = parseAuto(out) }) {
		return
	}
	c.Evals(1)
	if err != nil {
		c.Violatef("read-error", det, "reading back the writer's own SPDX output failed: %v", err)
		return
	}
	if sig, msg := compareSPDX(doc, d1); sig != "" {
		det["output_head"] = string(out[:min(len(out), 1500)])
		c.Violatef("roundtrip-"+sig, det, "first pass (shape %s, indent %d): %s", shape, indent, msg)
		return
	}
	// second pass: nothing changes further
	var out2 []byte
	var d2 *sbom.Document
	if guard(c, "write-spdx23", det, func() { out2, err = writeDoc(d1, formats.SPDX23JSON, indent) }) {
		return
	}
	if err != nil {
		c.Violatef("second-write-error", det, "writing the parsed document again failed: %v", err)
		return
	}
	if guard(c, "read-spdx23", det, func() { d2, err = parseAuto(out2) }) {
		return
	}
	c.Evals(2)
	if err != nil {
		c.Violatef("second-read-error", det, "second read failed: %v", err)
		return
	}
	if sig, msg := compareSPDX(d1, d2); sig != "" {
		c.Violatef("second-pass-"+sig, det, "second pass changed the graph: %s", msg)
		return
	}
	if !d1.NodeList.Equal(d2.NodeList) {
		// library equality on the node list as a whole (covers attributes outside the projection)
		c.Violatef("second-pass-not-Equal", det, "node list after the second pass is not Equal to the one after the first")
	}
}
