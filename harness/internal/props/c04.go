package props

import (
	"bytes"
	"fmt"
	"math"
	"math/rand"
	"runtime"
	"strings"
	"sync"
	"syscall"

	"github.com/protobom/protobom/pkg/formats"
	"github.com/protobom/protobom/pkg/native"
	"github.com/protobom/protobom/pkg/reader"
	"github.com/protobom/protobom/pkg/sbom"
	"verifharness/internal/core"
	"verifharness/internal/gen"
	"verifharness/internal/jsonx"
)

// C04 — parsers are total on untrusted input (crash/exit/hang monitors in supervised children, return-shape predicate, logical cost monitor).

var c04Formats = []formats.Format{formats.CDX10JSON, formats.CDX11JSON, formats.CDX12JSON, formats.CDX13JSON, formats.CDX14JSON, formats.CDX15JSON, formats.SPDX23JSON}

type c04Rep struct {
	name  string
	tree  *jsonx.Value
	paths []jsonx.Path
}

var (
	c04Once    sync.Once
	c04Reps    []c04Rep
	c04Singles [][3]int // rep, path, fault
)

func c04Init() {
	c04Once.Do(func() {
		for _, d := range gen.RepDocs {
			t, err := jsonx.Parse([]byte(d.JSON))
			if err != nil {
				panic("representative document does not parse: " + d.Name + ": " + err.Error())
			}
			c04Reps = append(c04Reps, c04Rep{d.Name, t, jsonx.Paths(t, 2)})
		}
		for ri, rep := range c04Reps {
			for pi := range rep.paths {
				for fi := range jsonx.Faults {
					c04Singles = append(c04Singles, [3]int{ri, pi, fi})
				}
			}
		}
	})
}

// shapeOK is the return-shape predicate of the statement.
func shapeOK(doc *sbom.Document, err error) string {
	switch {
	case doc == nil && err == nil:
		return "neither"
	case doc != nil && err != nil:
		return "both"
	case doc != nil && (doc.Metadata == nil || doc.NodeList == nil):
		return "document-without-metadata-or-nodelist"
	}
	return ""
}

// c04Exercise runs format detection and every registered parser on the input.
func c04Exercise(c *core.C, input []byte, label string) bool {
	// a CPU/heap abort while a CycloneDX licences array is being inflated has a known cause (see known_findings.json)
	if strings.Contains(label, "oversized") && strings.Contains(label, "/licenses") && strings.Contains(label, "cdx") {
		c.SetHangSig("cdx-license-expression-exponential")
	} else {
		c.SetHangSig("")
	}
	det := map[string]any{"label": label, "input_len": len(input)}
	if len(input) <= 4096 {
		det["input"] = string(input)
	} else {
		det["input_head"] = string(input[:2048])
	}
	ok := true
	var f formats.Format
	var err error
	if guard(c, "SniffReader", det, func() { f, err = (&formats.Sniffer{}).SniffReader(bytes.NewReader(input)) }) {
		ok = false
	} else {
		c.Evals(1)
		if (f == "") == (err == nil) {
			c.Violatef("sniff-shape", det, "SniffReader returned format %q and error %v (%s)", f, err, label)
			ok = false
		}
	}
	rd := reader.New()
	var doc *sbom.Document
	if guard(c, "ParseStream", det, func() { doc, err = rd.ParseStream(bytes.NewReader(input)) }) {
		ok = false
	} else {
		c.Evals(1)
		if s := shapeOK(doc, err); s != "" {
			c.Violatef("parse-shape-"+s, det, "ParseStream returned %s (doc=%v err=%v) on %s", s, doc != nil, err, label)
			ok = false
		}
		if err == nil {
			c.Cover("inputs-accepted-by-auto-parse")
		}
	}
	// the registered parsers themselves (what GetFormatUnserializer hands out), not only through the Reader
	for _, ft := range c04Formats {
		u, uerr := reader.GetFormatUnserializer(ft)
		if uerr != nil || u == nil {
			c.Violatef("registered-parser-missing", string(ft), "no parser registered for %s: %v", ft, uerr)
			ok = false
			continue
		}
		if guard(c, "Unserialize", det, func() { doc, err = u.Unserialize(bytes.NewReader(input), &native.UnserializeOptions{}, nil) }) {
			ok = false
			continue
		}
		c.Evals(1)
		if s := shapeOK(doc, err); s != "" {
			c.Violatef("driver-shape-"+s, det, "the registered %s parser returned %s (doc=%v err=%v) on %s", ft, s, doc != nil, err, label)
			ok = false
		}
	}
	for _, ft := range c04Formats {
		ft := ft
		if guard(c, "ParseStreamWithOptions", det, func() {
			doc, err = rd.ParseStreamWithOptions(bytes.NewReader(input), &reader.Options{Format: ft, UnserializeOptions: &native.UnserializeOptions{}})
		}) {
			ok = false
			continue
		}
		c.Evals(1)
		if s := shapeOK(doc, err); s != "" {
			c.Violatef("parse-shape-"+s, det, "ParseStreamWithOptions(%s) returned %s on %s", ft, s, label)
			ok = false
		}
	}
	return ok
}

func c04Counts(tier string) (singles, doubles, trunc, soups, nest, series int) {
	c04Init()
	singles = len(c04Singles)
	doubles = 20000
	soups = 4000
	trunc = 0
	for _, d := range gen.RepDocs {
		trunc += len(d.JSON)
	}
	if tier == "thorough" {
		doubles = 1200000
		soups = 200000
	} else {
		trunc = trunc / 7 // every 7th prefix in the quick tier
	}
	nest = 12
	series = 0
	for _, rep := range c04Reps {
		for _, p := range rep.paths {
			if v, _ := jsonx.At(rep.tree, p); v != nil && (v.Kind == jsonx.Array && len(v.Elems) > 0) {
				series++
			}
		}
	}
	series += len(c04Reps) // nesting series per document
	return
}

func init() {
	core.Register(&core.Prop{
		ID: "C04", Level: "exploration",
		Rule: "inputs, in fixed case ranges: (1) EVERY single schema fault (null, 5 wrong types, empty, absent, duplicated, oversized, negative number, object nested into itself, strings cut short or in another letter case, runs of nulls) at EVERY JSON path of four hand-written representative documents (full-featured SPDX 2.3, CycloneDX 1.4, 1.5, nested components with duplicate/missing refs); " +
			"(2) double faults: PRNG-chosen pairs (quick 20 000; thorough 1.2 M); (3) byte-prefix truncations of the representative documents (quick every 7th, thorough every one); (4b) the full product of top-level sections being absent, null, empty, holding a null or empty entry, or minimal (2230 skeleton documents); (4) random bytes, JSON token soups and texts of the tag-value family (tags with empty, blank, wrapped, foreign or truncated values, mixed line endings); " +
			"(5) nesting of arrays/objects/components to depth 10 000; (6) size series k=4,8,16,20,24,32 for every array path and for component nesting. " +
			"Every input goes through SniffReader, ParseStream, ParseStreamWithOptions for each of the 7 registered formats and each registered parser called directly, inside a supervised child: recover() catches panics, the parent attributes a dead child to the logged case, " +
			"the return-shape predicate (document XOR error; metadata and node list present) is checked, and the cost monitor (bytes allocated + CPU time, never wall time) flags local growth exponents above 3.5 on two consecutive size steps. " +
			"distinct = hash of the input bytes; non-trivial = every input counts (each is a different byte string).",
		Assumptions: []string{"'all byte strings' is sampled; the systematic part is the single/double fault space of the representative documents", "polynomial time is decided on allocation and CPU-time growth exponents, with a 10 CPU-second / 6 GB per-input watchdog (re-run alone with 10x margin before a hang is reported)"},
		NCases: func(tier string) int {
			a, b, cc, d, e, f := c04Counts(tier)
			return a + b + cc + d + e + f + c04SkeletonN
		},
		Case:    c04Case,
		CaseCPU: 10,
		ExhaustiveSubspaces: func(tier string) []string {
			out := []string{"every single schema fault (21 kinds) at every JSON path of the four representative documents",
				"every combination of the top-level sections of a document being absent, null, empty, holding a null or an empty entry, or minimal (CycloneDX: 3 versions x 7 metadata x 6 components x 5 dependencies; SPDX: 5 packages x 4 files x 5 relationships x 4 documentDescribes x 4 creationInfo)"}
			if tier == "thorough" {
				out = append(out, "every byte-prefix truncation of the representative documents")
			}
			return out
		},
	})
}

// Skeleton documents: every combination of the top-level sections being absent, null, empty, holding a null or an
// empty entry, or minimal. Faults at two or three sections at once (an empty components array AND no main component)
// are all in this product, which the sampled double faults reach only by luck.
var (
	c04SkelCDXMeta = []string{"", `"metadata":null,`, `"metadata":{},`, `"metadata":{"component":null},`, `"metadata":{"component":{}},`,
		`"metadata":{"component":{"bom-ref":"r","type":"application","name":"r"}},`, `"metadata":{"component":{"bom-ref":"r","type":"application","name":"r","components":[]}},`}
	c04SkelCDXComps = []string{"", `"components":null,`, `"components":[],`, `"components":[null],`, `"components":[{}],`, `"components":[{"bom-ref":"a","type":"library","name":"a","components":[]}],`}
	c04SkelCDXDeps  = []string{"", `"dependencies":null,`, `"dependencies":[],`, `"dependencies":[null],`, `"dependencies":[{"ref":"a","dependsOn":[]}],`}
	c04SkelCDXVers  = []string{"1.5", "1.4", "1.3"}
	c04SkelPk       = []string{"", `"packages":null,`, `"packages":[],`, `"packages":[null],`, `"packages":[{"SPDXID":"SPDXRef-a","name":"a"}],`}
	c04SkelFl       = []string{"", `"files":null,`, `"files":[],`, `"files":[{"SPDXID":"SPDXRef-f","fileName":"f"}],`}
	c04SkelRel      = []string{"", `"relationships":null,`, `"relationships":[],`, `"relationships":[null],`, `"relationships":[{"spdxElementId":"SPDXRef-DOCUMENT","relationshipType":"DESCRIBES","relatedSpdxElement":"SPDXRef-a"}],`}
	c04SkelDD       = []string{"", `"documentDescribes":null,`, `"documentDescribes":[],`, `"documentDescribes":["SPDXRef-a"],`}
	c04SkelCI       = []string{"", `"creationInfo":null,`, `"creationInfo":{},`, `"creationInfo":{"creators":[],"created":""},`}
	c04SkelCDXN     = len(c04SkelCDXVers) * len(c04SkelCDXMeta) * len(c04SkelCDXComps) * len(c04SkelCDXDeps)
	c04SkeletonN    = c04SkelCDXN + len(c04SkelPk)*len(c04SkelFl)*len(c04SkelRel)*len(c04SkelDD)*len(c04SkelCI)
)

func c04Skeleton(i int) ([]byte, string) {
	pick := func(xs []string) string { x := xs[i%len(xs)]; i /= len(xs); return x }
	if i < c04SkelCDXN {
		v, m, cm, d := pick(c04SkelCDXVers), pick(c04SkelCDXMeta), pick(c04SkelCDXComps), pick(c04SkelCDXDeps)
		return []byte(`{"bomFormat":"CycloneDX","specVersion":"` + v + `",` + m + cm + d + `"version":1}`), "CycloneDX " + v + " skeleton: " + m + cm + d
	}
	i -= c04SkelCDXN
	pk, fl, rel, dd, ci := pick(c04SkelPk), pick(c04SkelFl), pick(c04SkelRel), pick(c04SkelDD), pick(c04SkelCI)
	return []byte(`{"spdxVersion":"SPDX-2.3","SPDXID":"SPDXRef-DOCUMENT",` + pk + fl + rel + dd + ci + `"name":"x"}`), "SPDX skeleton: " + pk + fl + rel + dd + ci
}

func c04Case(c *core.C) {
	c04Init()
	singles, doubles, trunc, soups, nest, series := c04Counts(c.Tier)
	k := c.K
	if base := singles + doubles + trunc + soups + nest + series; k >= base {
		in, label := c04Skeleton(k - base)
		c.Cover("skeleton-documents")
		c.DistinctBytes(in)
		if c.WantSample() && (k-base)%97 == 0 {
			c.Sample(map[string]any{"kind": "skeleton", "input": string(in)})
		}
		c04Exercise(c, in, label)
		return
	}
	enc := func(v *jsonx.Value) []byte { return jsonx.Encode(v, jsonx.EncOpts{Indent: -1}) }
	switch {
	case k < singles:
		s := c04Singles[k]
		rep := c04Reps[s[0]]
		mut, ok := jsonx.ApplyFault(rep.tree, rep.paths[s[1]], jsonx.Faults[s[2]], 0)
		if !ok {
			c.Cover("single-fault-not-applicable")
			return
		}
		label := fmt.Sprintf("single fault %s at %s of %s", jsonx.Faults[s[2]], rep.paths[s[1]], rep.name)
		in := enc(mut)
		c.Cover("single-faults")
		c.Cover("fault:" + jsonx.Faults[s[2]])
		c.DistinctBytes(in)
		if c.WantSample() && k%97 == 0 {
			c.Sample(map[string]any{"kind": "single fault", "label": label})
		}
		c04Exercise(c, in, label)
		return
	case k < singles+doubles:
		r := c.R
		ri := r.Intn(len(c04Reps))
		rep := c04Reps[ri]
		p1, p2 := rep.paths[r.Intn(len(rep.paths))], rep.paths[r.Intn(len(rep.paths))]
		f1, f2 := jsonx.Faults[r.Intn(len(jsonx.Faults))], jsonx.Faults[r.Intn(len(jsonx.Faults))]
		mut, ok := jsonx.ApplyFault(rep.tree, p1, f1, 0)
		if !ok {
			return
		}
		k2 := 0
		if f1 == "oversized" && f2 == "oversized" {
			k2 = 32 // two thousandfold blow-ups multiply to a document of hundreds of megabytes
		}
		if m2, ok2 := jsonx.ApplyFault(mut, p2, f2, k2); ok2 {
			mut = m2
		}
		label := fmt.Sprintf("double fault %s at %s + %s at %s of %s", f1, p1, f2, p2, rep.name)
		if jsonx.Count(mut, 400000) > 400000 {
			// the budgets are per input, not per byte: an input of this size says nothing about totality and costs
			// the harness itself (building and encoding it) more than the budget
			c.Cover("double-fault-input-too-large(not run)")
			return
		}
		in := enc(mut)
		c.Cover("double-faults")
		c.DistinctBytes(in)
		c04Exercise(c, in, label)
		return
	case k < singles+doubles+trunc:
		i := k - singles - doubles
		if !c.Thorough() {
			i *= 7
		}
		for _, d := range gen.RepDocs {
			if i < len(d.JSON) {
				in := []byte(d.JSON[:i])
				c.Cover("truncations")
				c.DistinctBytes(in)
				c04Exercise(c, in, fmt.Sprintf("truncation of %s at byte %d", d.Name, i))
				return
			}
			i -= len(d.JSON)
		}
		return
	case k < singles+doubles+trunc+soups:
		in := c04Soup(c.R)
		c.Cover("random-bytes-and-token-soups")
		c.DistinctBytes(in)
		if c.WantSample() && k%13 == 0 {
			c.Sample(map[string]any{"kind": "token soup", "input": string(in[:min(len(in), 200)])})
		}
		c04Exercise(c, in, "token soup")
		return
	case k < singles+doubles+trunc+soups+nest:
		i := k - (singles + doubles + trunc + soups)
		depth := 10000
		var in []byte
		switch i % 6 {
		case 0:
			in = []byte(strings.Repeat("[", depth) + strings.Repeat("]", depth))
		case 1:
			in = []byte(strings.Repeat(`{"a":`, depth) + "1" + strings.Repeat("}", depth))
		case 2:
			in = c04NestedComponents(depth/10, "1.5")
		case 3:
			in = []byte(`{"bomFormat":"CycloneDX","specVersion":"1.4","components":` + strings.Repeat("[", depth) + strings.Repeat("]", depth) + `}`)
		case 4:
			in = []byte(`{"spdxVersion":"SPDX-2.3","packages":` + strings.Repeat(`[{"files":`, depth/10) + "[]" + strings.Repeat("}]", depth/10) + `}`)
		case 5:
			in = []byte(`{"spdxVersion":"SPDX-2.3","SPDXID":"SPDXRef-DOCUMENT","relationships":` + strings.Repeat("[", depth) + strings.Repeat("]", depth) + `}`)
		}
		c.Cover("deep-nesting")
		c.DistinctBytes(in)
		c04Exercise(c, in, fmt.Sprintf("deep nesting kind %d", i%6))
		return
	default:
		c04Series(c, k-(singles+doubles+trunc+soups+nest))
		_ = series
	}
}

func c04NestedComponents(depth int, ver string) []byte {
	var sb strings.Builder
	sb.WriteString(`{"bomFormat":"CycloneDX","specVersion":"` + ver + `","version":1,"metadata":{"component":{"bom-ref":"r","type":"application","name":"r"}},"components":[`)
	for i := 0; i < depth; i++ {
		fmt.Fprintf(&sb, `{"bom-ref":"c%d","type":"library","name":"c%d","version":"1","components":[`, i, i)
	}
	sb.WriteString(strings.Repeat("]}", depth))
	sb.WriteString("]}")
	return []byte(sb.String())
}

var c04Tokens = []string{"{", "}", "[", "]", ":", ",", `"bomFormat"`, `"CycloneDX"`, `"specVersion"`, `"1.4"`, `"1.5"`, `"spdxVersion"`, `"SPDX-2.3"`, `"SPDXVersion: SPDX-2.3"`,
	`"components"`, `"packages"`, `"files"`, `"relationships"`, `"metadata"`, `"component"`, `"licenses"`, `"license"`, `"hashes"`, `"externalRefs"`, `"SPDXID"`, `"SPDXRef-a"`,
	"null", "true", "false", "0", "-1", "1e999", `""`, `"\ud800"`, "\xff", "\x00", " ", "\n", "SPDXVersion: SPDX-2.3\n", "DataLicense: CC0-1.0\n", `'SPDX-2.2'`, "SPDXVersion:", "SPDXVersion:\n", "SPDXVersion: \r\n"}

var c04Tags = []string{"SPDXVersion", "DataLicense", "SPDXID", "DocumentName", "DocumentNamespace", "Creator", "Created", "PackageName", "PackageVersion", "FileName", "Relationship", "spdxVersion", "bomFormat", "SPDXVersion ", " SPDXVersion"}
var c04TagValues = []string{"", " ", "   ", "\t", "\r", " \r", "SPDX-2.3", " SPDX-2.3", " SPDX-2.2 ", " SPDX-", " SPDX-3.0", " 2.3", " <text>", " <text>a", " <text>a\nb</text>", " CC0-1.0", " SPDXRef-DOCUMENT", " 'SPDX-2.3'", " \"SPDX-2.3\"", " \xff", ":", " :"}

// c04TagValue: non-JSON text in the tag-value family - tags with empty, blank, wrapped, truncated and foreign values,
// mixed line endings, optionally cut at an arbitrary byte.
func c04TagValue(r *rand.Rand) []byte {
	var sb strings.Builder
	if r.Intn(3) == 0 {
		sb.WriteString(gen.Pick(r, []string{"\n", " ", "\ufeff", "# comment\n", "\r\n"}))
	}
	n := 1 + r.Intn(6)
	for i := 0; i < n; i++ {
		tag := gen.Pick(r, c04Tags)
		if i == 0 && r.Intn(2) == 0 {
			tag = "SPDXVersion"
		}
		sb.WriteString(tag)
		if r.Intn(10) != 0 {
			sb.WriteString(":")
		}
		sb.WriteString(gen.Pick(r, c04TagValues))
		sb.WriteString(gen.Pick(r, []string{"\n", "\n", "\r\n", "", "\n\n"}))
	}
	b := []byte(sb.String())
	if r.Intn(4) == 0 && len(b) > 0 {
		b = b[:r.Intn(len(b)+1)]
	}
	return b
}

func c04Soup(r *rand.Rand) []byte {
	switch r.Intn(5) {
	case 4:
		return c04TagValue(r)
	case 0:
		b := make([]byte, r.Intn(300))
		r.Read(b)
		return b
	case 1: // valid prefix of a declaration followed by soup
		var sb strings.Builder
		sb.WriteString(gen.Pick(r, []string{`{"bomFormat":"CycloneDX","specVersion":"1.5",`, `{"spdxVersion":"SPDX-2.3",`, `{"bomFormat":"CycloneDX","specVersion":"1.4","components":[`, `{"spdxVersion":"SPDX-2.3","packages":[`}))
		for i := 0; i < r.Intn(40); i++ {
			sb.WriteString(c04Tokens[r.Intn(len(c04Tokens))])
		}
		return []byte(sb.String())
	}
	var sb strings.Builder
	for i := 0; i < r.Intn(60); i++ {
		sb.WriteString(c04Tokens[r.Intn(len(c04Tokens))])
	}
	return []byte(sb.String())
}

// cost of one full exercise: bytes allocated and CPU seconds (logical, load-independent enough for exponents).
func c04Cost(c *core.C, in []byte, label string) (alloc float64, cpu float64, ok bool) {
	var m0, m1 runtime.MemStats
	var r0, r1 syscall.Rusage
	runtime.ReadMemStats(&m0)
	_ = syscall.Getrusage(syscall.RUSAGE_SELF, &r0)
	ok = c04Exercise(c, in, label)
	_ = syscall.Getrusage(syscall.RUSAGE_SELF, &r1)
	runtime.ReadMemStats(&m1)
	cpu = float64(r1.Utime.Sec-r0.Utime.Sec) + float64(r1.Utime.Usec-r0.Utime.Usec)/1e6
	return float64(m1.TotalAlloc - m0.TotalAlloc), cpu, ok
}

func c04Series(c *core.C, idx int) {
	// enumerate (rep, array path) pairs, then one nesting series per rep
	type site struct {
		ri int
		p  jsonx.Path
	}
	var sites []site
	for ri, rep := range c04Reps {
		for _, p := range rep.paths {
			if v, _ := jsonx.At(rep.tree, p); v != nil && v.Kind == jsonx.Array && len(v.Elems) > 0 {
				sites = append(sites, site{ri, p})
			}
		}
	}
	var mk func(k int) []byte
	var label, sigPath string
	if idx < len(sites) {
		s := sites[idx]
		rep := c04Reps[s.ri]
		label = fmt.Sprintf("size series at %s of %s", s.p, rep.name)
		sigPath = rep.name + ":" + s.p.String()
		mk = func(k int) []byte {
			mut, _ := jsonx.ApplyFault(rep.tree, s.p, "oversized", k-1)
			return jsonx.Encode(mut, jsonx.EncOpts{Indent: -1})
		}
	} else {
		ri := idx - len(sites)
		if ri >= len(c04Reps) {
			return
		}
		label = "component nesting series (" + c04Reps[ri].name + ")"
		sigPath = "nesting"
		ver := []string{"1.3", "1.4", "1.5", "1.5"}[ri%4]
		mk = func(k int) []byte { return c04NestedComponents(k*8, ver) }
	}
	c.Cover("size-series")
	ks := []int{4, 8, 16, 20, 24, 32}
	var allocs, cpus, exps []float64
	for i, k := range ks {
		in := mk(k)
		c.DistinctBytes(in)
		a, cp, ok := c04Cost(c, in, fmt.Sprintf("%s (oversized), k=%d", label, k))
		if !ok {
			return
		}
		allocs, cpus = append(allocs, a), append(cpus, cp)
		if i >= 1 {
			// local growth exponent between consecutive sizes: d log(cost) / d log(k)
			exps = append(exps, math.Log(allocs[i]/allocs[i-1])/math.Log(float64(ks[i])/float64(ks[i-1])))
		}
		if n := len(exps); n >= 2 && exps[n-1] > 3.5 && exps[n-2] > 3.5 {
			sig := "superpolynomial-cost:" + sigPath
			if strings.HasSuffix(sigPath, "/licenses") && strings.Contains(sigPath, "cdx") {
				sig = "cdx-license-expression-exponential"
			}
			c.Violatef(sig, map[string]any{"label": label, "k": ks[:i+1], "bytes_allocated": allocs, "cpu_s": cpus, "local_exponents": exps, "input_bytes_at_last_k": len(in)},
				"%s: bytes allocated grow with local exponents %.1f and %.1f on consecutive size steps (k=%v: %v bytes; %d input bytes at the last k) — super-polynomial", label, exps[n-2], exps[n-1], ks[:i+1], allocs, len(in))
			return
		}
		if a > 2e9 {
			break // cost already large: do not grow again (the exponents so far were acceptable)
		}
	}
	if c.WantSample() {
		c.Sample(map[string]any{"kind": "size series", "label": label, "k": ks[:len(allocs)], "bytes_allocated": allocs, "local_exponents": exps})
	}
}
