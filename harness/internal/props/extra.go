// Package props wires each property of /verif/properties.jsonl to its monitors.
package props

// Extra handles sub-commands beyond run/shard/replay (workers, tracer).
func Extra(args []string) (int, bool) {
	if f, ok := extraCmds[args[0]]; ok {
		return f(args[1:]), true
	}
	return 0, false
}

var extraCmds = map[string]func(args []string) int{}
