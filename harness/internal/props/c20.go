package props

import (
	"fmt"
	"io"
	"os"
	"path/filepath"
	"sort"
	"strings"

	"github.com/protobom/protobom/pkg/sbom"
	"google.golang.org/protobuf/encoding/protowire"
	"google.golang.org/protobuf/proto"
	"verifharness/internal/core"
	"verifharness/internal/gen"
	"verifharness/internal/ptrace"
)

// C20 — storing a document is atomic with respect to crashes (crash-point enumeration with a ptrace injector).

type c20Scenario struct {
	name      string
	dirExists bool
	hasOld    bool
	oldBigger bool
	noClobber bool
	linked    bool // the existing entry is a symbolic link to the file that holds the document
	readOnly  bool // the store directory is not writable for the storing uid (the entry file is)
}

var c20Scenarios = []c20Scenario{
	{"first-store-missing-directory", false, false, false, false, false, false},
	{"first-store-existing-directory", true, false, false, false, false, false},
	{"overwrite-smaller-old", true, true, false, false, false, false},
	{"overwrite-larger-old", true, true, true, false, false, false},
	{"overwrite-no-clobber", true, true, false, true, false, false},
	{"first-store-no-clobber", true, false, false, true, false, false},
	{"first-store-missing-directory-no-clobber", false, false, false, true, false, false},
	{"overwrite-entry-is-a-symbolic-link", true, true, false, false, true, false},
	{"overwrite-in-a-directory-the-storing-uid-cannot-write", true, true, false, false, false, true},
}

var c20Sizes = []int{100, 1000, 8000, 64000}

func c20Doc(id, tag string, size int) *sbom.Document {
	d := sbom.NewDocument()
	d.Metadata.Id = id
	d.Metadata.Name = tag
	d.Metadata.Version = "1"
	i := 0
	for proto.Size(d) < size {
		n := &sbom.Node{Id: fmt.Sprintf("%s-node-%d", tag, i), Name: strings.Repeat(tag, 3), Version: fmt.Sprint(i), Hashes: map[int32]string{3: strings.Repeat("ab", 16)}}
		d.NodeList.Nodes = append(d.NodeList.Nodes, n)
		if i > 0 {
			d.NodeList.Edges = append(d.NodeList.Edges, &sbom.Edge{From: fmt.Sprintf("%s-node-0", tag), Type: sbom.Edge_contains, To: []string{n.Id}})
		}
		i++
	}
	if len(d.NodeList.Nodes) > 0 {
		d.NodeList.RootElements = []string{d.NodeList.Nodes[0].Id}
	}
	return d
}

func chownR(path string) {
	_ = filepath.Walk(path, func(p string, _ os.FileInfo, err error) error {
		if err == nil {
			_ = os.Chown(p, unprivUID, unprivUID)
		}
		return nil
	})
}

func copyTree(src, dst string) error {
	return filepath.Walk(src, func(p string, info os.FileInfo, err error) error {
		if err != nil {
			return err
		}
		rel, _ := filepath.Rel(src, p)
		t := filepath.Join(dst, rel)
		if info.IsDir() {
			return os.MkdirAll(t, 0o755)
		}
		if info.Mode()&os.ModeSymlink != 0 {
			target, err := os.Readlink(p)
			if err != nil {
				return err
			}
			return os.Symlink(target, t)
		}
		in, err := os.Open(p)
		if err != nil {
			return err
		}
		defer in.Close()
		out, err := os.OpenFile(t, os.O_CREATE|os.O_WRONLY|os.O_TRUNC, info.Mode())
		if err != nil {
			return err
		}
		defer out.Close()
		_, err = io.Copy(out, in)
		return err
	})
}

func writeFileAll(path string, b []byte) { _ = os.WriteFile(path, b, 0o644) }

// topLevelBoundaries: offsets at which a prefix of the encoding is itself a valid (shorter) message.
func topLevelBoundaries(b []byte) []int {
	var out []int
	off := 0
	for off < len(b) {
		_, _, n := protowire.ConsumeField(b[off:])
		if n < 0 {
			break
		}
		off += n
		out = append(out, off)
	}
	return out
}

func c20Prefixes(c *core.C, data int, enc []byte, chunk, chunks int) []int {
	set := map[int]bool{}
	add := func(p int) {
		if p >= 0 && p < data {
			set[p] = true
		}
	}
	if c.Thorough() {
		if data <= 8200 {
			for p := 0; p < data; p++ {
				add(p)
			}
		} else {
			step := data / 4096
			for p := 0; p < data; p += step {
				add(p)
			}
		}
	}
	for _, p := range []int{0, 1, 2, 3, data / 2, data - 2, data - 1} {
		add(p)
	}
	for _, b := range topLevelBoundaries(enc) {
		add(b - 1)
		add(b)
		add(b + 1)
	}
	for i := 0; len(set) < 48 && i < 400; i++ {
		add(c.R.Intn(data))
	}
	var out []int
	for p := range set {
		out = append(out, p)
	}
	sort.Ints(out)
	var mine []int
	for i, p := range out {
		if i%chunks == chunk {
			mine = append(mine, p)
		}
	}
	return mine
}

func c20Plan(tier string) (cases [][3]int) { // scenario, size index, chunk
	chunks := 1
	if tier == "thorough" {
		chunks = 16
	}
	for si := range c20Scenarios {
		for zi := range c20Sizes {
			for ch := 0; ch < chunks; ch++ {
				cases = append(cases, [3]int{si, zi, ch})
			}
		}
	}
	return
}

func init() {
	core.Register(&core.Prop{
		ID: "C20", Level: "fault_enumeration",
		Rule: "for each scenario (first store into a missing directory, into an existing one, overwrite of a smaller and of a larger entry, overwrite with no-clobber, first store with no-clobber into an existing and into a missing directory, overwrite of an entry that is a symbolic link to the file holding the document, overwrite in a directory where the storing uid may not create files but may write the entry) and document size (0.1, 1, 8, 64 KB) the storing child " +
			"(one Store through the FileSystem backend, uid 65534) runs under a ptrace tracer that follows all threads and numbers, in one global order, the entry and exit stops of every file-system syscall touching the store directory. A fault-free run fixes the stop sequence; then the child is SIGKILLed at EVERY stop, " +
			"and for every write to a file in the directory at each chosen prefix length (quick: 0,1,2,3, every top-level field boundary of the protobuf encoding +-1, half, len-2, len-1, padded to >=48 PRNG-chosen prefixes; thorough: EVERY prefix for documents <=8 KB, 4096 stratified prefixes at 64 KB) " +
			"the length register is rewritten at the syscall entry, the kernel performs the short write and the child is killed at the exit. After each trial a fresh process retrieves the target id and two bystander ids; the outcome must be the complete old document, the complete new one, or an error return " +
			"(a retriever that dies is a violation with its own signature), a later Store of a shorter document under the same identifier must be retrievable complete, bystanders must be intact. A file-system syscall the tracer does not understand makes the run inconclusive. distinct = (scenario, size, stop or prefix); non-trivial = trial in which the child was actually killed inside the store.",
		Assumptions: []string{"process death only (the page cache survives); power loss and fsync ordering are outside the statement", "amd64 Linux ptrace; the stop enumeration is exhaustive for the syscall sequence the fault-free run exhibits"},
		NCases:      func(tier string) int { return len(c20Plan(tier)) },
		Case:        c20Case,
		CaseCPU:     600,
		ExhaustiveSubspaces: func(tier string) []string {
			out := []string{"every entry/exit stop of every file-system syscall of the fault-free store, per scenario and document size"}
			if tier == "thorough" {
				out = append(out, "every torn prefix length of every write for documents <= 8 KB (64 KB: 4096 stratified prefixes)")
			}
			return out
		},
		MustCover: []string{"trials-killed-inside-store", "torn-write-trials"},
	})
}

func c20Case(c *core.C) {
	if !unprivPreflight(c) {
		return
	}
	plan := c20Plan(c.Tier)
	sc, size, chunk := c20Scenarios[plan[c.K][0]], c20Sizes[plan[c.K][1]], plan[c.K][2]
	chunks := 1
	if c.Thorough() {
		chunks = 16
	}
	base, err := scratchBase(c, "c20-", c.K%2 == 1)
	if err != nil {
		c.Violatef("harness-scratch", nil, "no scratch dir: %v", err)
		return
	}
	defer os.RemoveAll(base)
	_ = os.Chmod(base, 0o755)
	const target = "urn:uuid:target-doc"
	oldSize, newSize := size/2+40, size
	if sc.oldBigger {
		oldSize, newSize = size, size/2+40
	}
	oldDoc, newDoc := c20Doc(target, "old", oldSize), c20Doc(target, "new", newSize)
	by1, by2 := c20Doc("urn:uuid:bystander-1", "by1", 300), c20Doc("urn:uuid:bystander-2", "by2", 2000)
	// the document stored AFTER the crash: shorter than both, and one variant with metadata only
	laterDoc := c20Doc(target, "later", 60)
	files := map[string]*sbom.Document{"old.pb": oldDoc, "new.pb": newDoc, "by1.pb": by1, "by2.pb": by2, "later.pb": laterDoc}
	for name, d := range files {
		b, _ := proto.Marshal(d)
		writeFileAll(filepath.Join(base, name), b)
	}
	for name, id := range map[string]string{"target.id": target, "by1.id": by1.Metadata.Id, "by2.id": by2.Metadata.Id} {
		writeFileAll(filepath.Join(base, name), []byte(id))
	}
	newEnc, _ := proto.Marshal(newDoc)
	pre := filepath.Join(base, "pre")
	_ = os.MkdirAll(pre, 0o755)
	store := filepath.Join(pre, "store")
	if sc.dirExists {
		_ = os.MkdirAll(store, 0o755)
		chownR(pre)
		for _, f := range []string{"by1.pb", "by2.pb"} {
			if o := runChild(true, "storeone", "-dir", store, "-docfile", filepath.Join(base, f)); o.kind != "OK" {
				c.Violatef("harness-prestate", o.msg, "cannot build the pre-state: %s %s", o.kind, o.msg)
				return
			}
		}
		if sc.hasOld {
			if o := runChild(true, "storeone", "-dir", store, "-docfile", filepath.Join(base, "old.pb")); o.kind != "OK" {
				c.Violatef("harness-prestate", o.msg, "cannot build the pre-state: %s %s", o.kind, o.msg)
				return
			}
		}
		if sc.linked {
			// the entry of the target becomes a symbolic link to a file kept next to the store (found by content)
			ents, _ := os.ReadDir(store)
			moved := false
			for _, e := range ents {
				p := filepath.Join(store, e.Name())
				b, rerr := os.ReadFile(p)
				d := &sbom.Document{}
				if rerr == nil && proto.Unmarshal(b, d) == nil && proto.Equal(d, oldDoc) {
					real := filepath.Join(pre, "real")
					_ = os.MkdirAll(real, 0o755)
					if os.Rename(p, filepath.Join(real, e.Name())) == nil && os.Symlink(filepath.Join("..", "real", e.Name()), p) == nil {
						moved = true
					}
				}
			}
			if !moved {
				c.Inconclusive("cannot turn the target's entry into a symbolic link (storage layout changed?)")
				return
			}
		}
	}
	chownR(pre)
	trial := 0
	// runTrial: fresh copy of the pre-state, store under the tracer with the plan, then retrieve in fresh processes.
	retryCount := 0
	runTrial := func(p ptrace.Plan, label string) (*ptrace.Result, bool) {
		trial++
		work := filepath.Join(base, fmt.Sprintf("work-%d", trial))
		if err := copyTree(pre, work); err != nil {
			c.Violatef("harness-copy", nil, "copy failed: %v", err)
			return nil, false
		}
		chownR(work)
		defer os.RemoveAll(work)
		wstore := filepath.Join(work, "store")
		if sc.readOnly {
			// the directory belongs to root (no new files for the storing uid), the entries stay the uid's own
			_ = os.Chown(wstore, 0, 0)
			_ = os.Chmod(wstore, 0o755)
		}
		p.Watch = wstore
		args := []string{"storeone", "-dir", wstore, "-docfile", filepath.Join(base, "new.pb")}
		if sc.noClobber {
			args = append(args, "-noclobber")
		}
		cmd := childCmd(true, args...)
		res, err := ptrace.Run(cmd, p)
		if err != nil {
			c.Cover("tracer-error")
			c.Violatef("harness-tracer", nil, "tracer failed: %v", err)
			return nil, false
		}
		c.Evals(1)
		det := map[string]any{"scenario": sc.name, "size": size, "trial": label, "syscalls": eventsBrief(res.Events)}
		// the retrievers: fresh, untraced processes
		got := runChild(true, "retrieveone", "-dir", wstore, "-idfile", filepath.Join(base, "target.id"))
		oldOK := sc.hasOld
		switch got.kind {
		case "DOC":
			switch {
			case proto.Equal(got.doc, newDoc):
				c.Cover("outcome:complete-new")
			case oldOK && proto.Equal(got.doc, oldDoc):
				c.Cover("outcome:complete-old")
			default:
				desc := "a document that is neither the old nor the new one"
				if proto.Size(got.doc) == 0 {
					desc = "an EMPTY document"
				} else if got.doc.GetMetadata().GetId() == target && got.doc.GetMetadata().GetName() == "new" {
					desc = fmt.Sprintf("a TRUNCATED new document (%d of %d nodes)", len(got.doc.GetNodeList().GetNodes()), len(newDoc.NodeList.Nodes))
				}
				c.Violatef("non-atomic-store:"+sc.name, det, "scenario %s, %d-byte document, crash at %s: a later Retrieve returned %s", sc.name, size, label, desc)
				return res, false
			}
		case "ERR":
			c.Cover("outcome:error-return")
		case "HARNESS":
			c.Violatef("harness-child", det, "retrieving child: %s", got.msg)
			return res, false
		case "DIED":
			c.Violatef("retriever-died-after-crash:"+sc.name, det, "scenario %s, crash at %s: the retrieving process died instead of returning (%s)", sc.name, label, got.msg)
			return res, false
		default:
			c.Violatef("retrieve-shape:"+got.kind, det, "scenario %s, crash at %s: Retrieve returned %s %s", sc.name, label, got.kind, got.msg)
			return res, false
		}
		// recovery: a later store of the same identifier (a shorter document) must succeed and be retrievable complete
		if res.Killed && !sc.noClobber {
			// alternately a shorter document and a RETRY of the very document whose store was killed (what a
			// caller does after a crash): leftovers of the killed store must not end up in the entry
			retryCount++
			laterFile, laterDoc, laterWhat := "later.pb", laterDoc, "a shorter document"
			if retryCount%2 == 0 {
				laterFile, laterDoc, laterWhat = "new.pb", newDoc, "the same document again (a retry)"
				c.Cover("outcome:retry-of-the-killed-store")
			}
			st := runChild(true, "storeone", "-dir", wstore, "-docfile", filepath.Join(base, laterFile))
			c.Evals(1)
			switch st.kind {
			case "OK":
				g2 := runChild(true, "retrieveone", "-dir", wstore, "-idfile", filepath.Join(base, "target.id"))
				if g2.kind == "HARNESS" {
					c.Violatef("harness-child", det, "retrieving child: %s", g2.msg)
					return res, false
				}
				if g2.kind != "DOC" || !proto.Equal(g2.doc, laterDoc) {
					what := g2.kind + " " + g2.msg
					if g2.kind == "DOC" {
						what = fmt.Sprintf("a different document (%d nodes, name %q): %s", len(g2.doc.GetNodeList().GetNodes()), g2.doc.GetMetadata().GetName(), firstDiffDeep(laterDoc, g2.doc))
					}
					c.Violatef("store-after-crash-not-retrievable:"+sc.name, det, "scenario %s, crash at %s, then a successful Store of %s under the same identifier: Retrieve returned %s", sc.name, label, laterWhat, what)
					return res, false
				}
				c.Cover("outcome:later-store-complete")
			case "ERR":
				c.Cover("outcome:later-store-error-return")
			case "HARNESS":
				c.Violatef("harness-child", det, "later storing child: %s", st.msg)
				return res, false
			default:
				c.Violatef("store-after-crash-died:"+sc.name, det, "scenario %s, crash at %s: a later Store terminated the process (%s)", sc.name, label, st.msg)
				return res, false
			}
		}
		if sc.dirExists {
			for _, by := range []struct {
				idf string
				d   *sbom.Document
			}{{"by1.id", by1}, {"by2.id", by2}} {
				b := runChild(true, "retrieveone", "-dir", wstore, "-idfile", filepath.Join(base, by.idf))
				if b.kind == "HARNESS" {
					c.Violatef("harness-child", det, "retrieving child: %s", b.msg)
					return res, false
				}
				if b.kind != "DOC" || !proto.Equal(b.doc, by.d) {
					c.Violatef("bystander-affected:"+sc.name, det, "scenario %s, crash at %s: the entry of another identifier changed (%s %s)", sc.name, label, b.kind, b.msg)
					return res, false
				}
			}
		}
		return res, true
	}
	// fault-free run: fixes the stop sequence
	dry, ok := runTrial(ptrace.NoFault(""), "no fault")
	if !ok || dry == nil {
		return
	}
	if len(dry.Unknown) > 0 {
		c.Cover("unknown-syscalls(inconclusive)")
		c.Violatef("harness-unknown-syscall", dry.Unknown, "the store used file-system syscalls the tracer does not understand: %v", dry.Unknown)
		return
	}
	n := len(dry.Events)
	c.CoverN("stops-in-fault-free-run", n)
	for _, e := range dry.Events {
		if e.Entry {
			c.Cover("syscall:" + e.Name)
		}
	}
	if chunk == 0 && c.WantSample() {
		c.Sample(map[string]any{"scenario": sc.name, "size": size, "fault_free_syscalls": eventsBrief(dry.Events)})
	}
	if n == 0 {
		c.Violatef("harness-no-stops", nil, "the tracer saw no file-system syscall on the store directory")
		return
	}
	// kill at every stop
	for k := 0; k < n; k++ {
		if k%chunks != chunk {
			continue
		}
		p := ptrace.NoFault("")
		p.KillAt = k
		e := dry.Events[k]
		label := fmt.Sprintf("stop %d (%s %s %s)", k, map[bool]string{true: "entry of", false: "exit of"}[e.Entry], e.Name, filepath.Base(e.Path))
		res, ok := runTrial(p, label)
		if res != nil && res.Killed {
			c.Cover("trials-killed-inside-store")
			c.DistinctStr(fmt.Sprint(sc.name, size, "stop", k))
		}
		if !ok {
			return
		}
	}
	// torn writes
	for _, e := range dry.Events {
		if !(e.Entry && (e.Name == "write" || e.Name == "pwrite64") && e.Len > 0) {
			continue
		}
		for _, plen := range c20Prefixes(c, int(e.Len), newEnc, chunk, chunks) {
			p := ptrace.NoFault("")
			p.TornAt, p.TornLen = e.Stop, uint64(plen)
			label := fmt.Sprintf("torn write: %d of %d bytes reach %s", plen, e.Len, filepath.Base(e.Path))
			res, ok := runTrial(p, label)
			if res != nil && res.Killed && res.Injected {
				c.Cover("torn-write-trials")
				c.Cover("trials-killed-inside-store")
				c.DistinctStr(fmt.Sprint(sc.name, size, "torn", plen))
			}
			if !ok {
				return
			}
		}
	}
}

func eventsBrief(evs []ptrace.Event) []string {
	var out []string
	for _, e := range evs {
		if e.Entry {
			s := fmt.Sprintf("%d:%s(%s", e.Stop, e.Name, filepath.Base(e.Path))
			if e.Path2 != "" {
				s += "->" + filepath.Base(e.Path2)
			}
			if e.Name == "write" {
				s += fmt.Sprintf(",%d bytes", e.Len)
			}
			if e.Name == "openat" {
				s += fmt.Sprintf(",flags=%#x", e.Flags)
			}
			out = append(out, s+")")
		}
	}
	return out
}

var _ = gen.Clone[*sbom.Node]
