package core

import (
	"fmt"
	"io"
	"os"
	"path/filepath"
)

// The storage checks run their children as an unprivileged uid. When the harness lives below a directory that
// uid cannot traverse (a copy of /verif under /root, a private TMPDIR), neither the binary nor the scratch
// directory is reachable for the child, and every child "dies" before the first instruction of the library runs.
// That is a property of where the harness was put, not of the library: the helpers below find a place the
// unprivileged uid can reach, and copy the binary there when needed.

// WorldTraversable reports whether every ancestor directory of path (and path itself when it is a directory)
// carries the search bit for others.
func WorldTraversable(path string) bool {
	p, err := filepath.Abs(path)
	if err != nil {
		return false
	}
	if rp, err := filepath.EvalSymlinks(p); err == nil {
		p = rp
	}
	for d := p; ; d = filepath.Dir(d) {
		st, err := os.Stat(d)
		if err != nil {
			return false
		}
		if st.IsDir() && st.Mode().Perm()&0o001 == 0 {
			return false
		}
		if d == filepath.Dir(d) {
			return true
		}
	}
}

// WorldExecutable reports whether file can be read and executed by any uid.
func WorldExecutable(file string) bool {
	st, err := os.Stat(file)
	if err != nil || st.IsDir() || st.Mode().Perm()&0o005 != 0o005 {
		return false
	}
	return WorldTraversable(filepath.Dir(file))
}

// MkScratch creates a scratch directory (mode 0755) that any uid can reach.
func MkScratch(prefix string) (string, error) {
	var last error
	for _, root := range []string{os.TempDir(), "/tmp", "/dev/shm", "/var/tmp"} {
		if !WorldTraversable(root) {
			last = fmt.Errorf("%s is not reachable for other uids", root)
			continue
		}
		d, err := os.MkdirTemp(root, prefix)
		if err != nil {
			last = err
			continue
		}
		_ = os.Chmod(d, 0o755)
		return d, nil
	}
	return "", last
}

// ChildExe returns a path of this binary that any uid can execute, copying it into scratch when the binary's
// own location is private.
func ChildExe(scratch string) (string, error) {
	exe, err := os.Executable()
	if err != nil {
		return "", err
	}
	if WorldExecutable(exe) {
		return exe, nil
	}
	dst := filepath.Join(scratch, "vcheck-child")
	in, err := os.Open(exe)
	if err != nil {
		return "", err
	}
	defer in.Close()
	out, err := os.OpenFile(dst, os.O_CREATE|os.O_TRUNC|os.O_WRONLY, 0o755)
	if err != nil {
		return "", err
	}
	if _, err := io.Copy(out, in); err != nil {
		out.Close()
		return "", err
	}
	if err := out.Close(); err != nil {
		return "", err
	}
	_ = os.Chmod(dst, 0o755)
	return dst, nil
}

// SetupChildEnv prepares VCHECK_SCRATCH and VCHECK_CHILD_EXE for this process and its shards; the returned
// function removes what was created.
func SetupChildEnv(prefix string) (scratch string, cleanup func(), err error) {
	scratch, err = MkScratch(prefix)
	if err != nil {
		return "", func() {}, err
	}
	cleanup = func() { os.RemoveAll(scratch) }
	exe, err := ChildExe(scratch)
	if err != nil {
		cleanup()
		return "", func() {}, err
	}
	os.Setenv("VCHECK_SCRATCH", scratch)
	os.Setenv("VCHECK_CHILD_EXE", exe)
	return scratch, cleanup, nil
}
