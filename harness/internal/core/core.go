// Package core is the property-independent part of the monitor harness:
// seeded case lists, sharded child processes with a progress log (so a child
// that dies is attributed to the case it was running), CPU/heap watchdogs that
// decide on logical cost, evidence files, known findings and replay files.
package core

import (
	"crypto/sha256"
	"encoding/binary"
	"encoding/json"
	"fmt"
	"math/rand"
	"os"
	"sort"
	"strings"
	"sync"
)

// Violation is one observed refutation of a property.
type Violation struct {
	Prop   string `json:"property"`
	Sig    string `json:"signature"`
	Msg    string `json:"message"`
	Case   int    `json:"case"`
	Detail any    `json:"detail,omitempty"`
}

// ShardResult is what one shard (child process) reports to the parent.
type ShardResult struct {
	Evaluations int            `json:"evaluations"`
	Cases       int            `json:"cases"`
	Hashes      []uint64       `json:"hashes"`
	Cover       map[string]int `json:"cover"`
	Samples     []any          `json:"samples"`
	Violations  []Violation    `json:"violations"`
	Slow        []int          `json:"slow,omitempty"`
	Done        bool           `json:"done"`
	Next        int            `json:"next,omitempty"`  // the shard stopped on purpose (fresh process per batch); resume here
	Ckpt        int            `json:"ckpt,omitempty"`  // every case below this index that belongs to the shard is accounted for in this file
	Abort       string         `json:"abort,omitempty"` // "cpu" or "heap": watchdog fired in AbortCase
	AbortCase   int            `json:"abort_case,omitempty"`
	AbortSig    string         `json:"abort_sig,omitempty"` // signature the running case declared for a hang
	Incon       []string       `json:"inconclusive,omitempty"`
	curHangSig  string
	hashSet     map[uint64]struct{}
	mu          sync.Mutex
}

func NewShardResult() *ShardResult {
	return &ShardResult{Cover: map[string]int{}, hashSet: map[uint64]struct{}{}}
}

// C is the context handed to a property for one case.
type C struct {
	PropID  string
	Tier    string
	Seed    int64
	K       int
	R       *rand.Rand
	Verbose bool
	res     *ShardResult
}

func (c *C) Thorough() bool { return c.Tier == "thorough" }

// Cover counts an observation class (enum value seen, shape seen, ...).
func (c *C) Cover(key string) { c.CoverN(key, 1) }
func (c *C) CoverN(key string, n int) {
	c.res.mu.Lock()
	c.res.Cover[key] += n
	c.res.mu.Unlock()
}

// Evals adds executions observed by an oracle.
func (c *C) Evals(n int) {
	c.res.mu.Lock()
	c.res.Evaluations += n
	c.res.mu.Unlock()
}

// Distinct records a non-trivial case by the hash of its canonical form.
func (c *C) Distinct(h uint64) {
	c.res.mu.Lock()
	c.res.hashSet[h] = struct{}{}
	c.res.mu.Unlock()
}

func (c *C) DistinctBytes(b []byte) { c.Distinct(Hash64(b)) }
func (c *C) DistinctStr(s string)   { c.Distinct(Hash64([]byte(s))) }

// SetHangSig declares the signature a watchdog abort during the current case must carry
// (so that a hang with a known cause is distinguishable from any other hang).
func (c *C) SetHangSig(sig string) {
	c.res.mu.Lock()
	c.res.curHangSig = sig
	c.res.mu.Unlock()
}

// Inconclusive records that this case could not be decided (harness fault, tool limit). Never folded into held or violated.
func (c *C) Inconclusive(reason string) {
	c.res.mu.Lock()
	if len(c.res.Incon) < 5 {
		c.res.Incon = append(c.res.Incon, fmt.Sprintf("case %d: %s", c.K, reason))
	}
	c.res.mu.Unlock()
}

// Sample keeps a few actual cases for the evidence file.
func (c *C) Sample(v any) {
	c.res.mu.Lock()
	if len(c.res.Samples) < 3 {
		c.res.Samples = append(c.res.Samples, v)
	}
	c.res.mu.Unlock()
}

func (c *C) WantSample() bool {
	c.res.mu.Lock()
	defer c.res.mu.Unlock()
	return len(c.res.Samples) < 3
}

// Violate records a refuting observation. sig is a narrow machine-checkable
// signature used for the known-finding lookup and for de-duplication.
func (c *C) Violate(sig, msg string, detail any) {
	if strings.HasPrefix(sig, "harness-") {
		// a fault of the checking machinery is never a verdict on the property
		c.Inconclusive(sig + ": " + msg)
		return
	}
	c.res.mu.Lock()
	n := 0
	for _, v := range c.res.Violations {
		if v.Sig == sig {
			n++
		}
	}
	if n < 3 { // keep a few witnesses per signature
		c.res.Violations = append(c.res.Violations, Violation{Prop: c.PropID, Sig: sig, Msg: msg, Case: c.K, Detail: detail})
	}
	c.res.Cover["violations:"+sig]++
	c.res.mu.Unlock()
	if c.Verbose {
		fmt.Printf("violation sig=%s case=%d: %s\n", sig, c.K, msg)
	}
}

func (c *C) Violatef(sig string, detail any, format string, a ...any) {
	c.Violate(sig, fmt.Sprintf(format, a...), detail)
}

// Prop describes one property check.
type Prop struct {
	ID          string
	Level       string // exploration | fault_enumeration
	Rule        string
	Assumptions []string
	// NCases gives the fixed number of cases for a tier (never a time budget).
	NCases func(tier string) int
	// Case runs case c.K.
	Case func(c *C)
	// Race: shards run in the -race build with GORACE logging; reports are parsed by the parent.
	Race bool
	// RaceCases: subset of case indices executed additionally under the race binary (nil = none).
	RaceNCases func(tier string) int
	RaceCase   func(c *C)
	// Parent is optional extra work done by the supervising process (ptrace, porcupine on merged histories).
	Parent func(p *ParentCtx)
	// MustCover lists coverage keys that must be non-zero, otherwise the run is inconclusive.
	MustCover []string
	Shards    int
	// CaseCPU is the per-case CPU budget in seconds (default 30).
	CaseCPU    float64
	Exhaustive func(tier string) bool
	// ExhaustiveSubspaces names, per tier, the finite sub-spaces this check enumerates completely (the rest is sampled).
	ExhaustiveSubspaces func(tier string) []string
	// FreshProcessPerCase: every case runs in its own child (package-level state must start clean).
	CasesPerProcess int
	// CrashInconclusive: a dying or hanging child makes the run inconclusive instead of violated
	// (for properties whose statement says nothing about totality).
	CrashInconclusive bool
}

var registry = map[string]*Prop{}

func Register(p *Prop)    { registry[p.ID] = p }
func Get(id string) *Prop { return registry[id] }
func IDs() []string {
	ids := []string{}
	for k := range registry {
		ids = append(ids, k)
	}
	sort.Strings(ids)
	return ids
}

// CaseRand returns the PRNG of case k: a pure function of (seed, property, k).
func CaseRand(seed int64, prop string, k int) *rand.Rand {
	h := sha256.New()
	var b [16]byte
	binary.LittleEndian.PutUint64(b[:8], uint64(seed))
	binary.LittleEndian.PutUint64(b[8:], uint64(k))
	h.Write(b[:])
	h.Write([]byte(prop))
	s := h.Sum(nil)
	return rand.New(rand.NewSource(int64(binary.LittleEndian.Uint64(s[:8]))))
}

func Hash64(b []byte) uint64 {
	s := sha256.Sum256(b)
	return binary.LittleEndian.Uint64(s[:8])
}

func HashJSON(v any) uint64 {
	b, _ := json.Marshal(v)
	return Hash64(b)
}

// KnownFindings is /verif/known_findings.json (never written at run time).
type KnownFindings struct {
	Findings []struct {
		Property string `json:"property"`
		Key      string `json:"key"`
		What     string `json:"what"`
	} `json:"findings"`
	Fixed []string `json:"fixed"`
}

func LoadKnown(path string) (*KnownFindings, error) {
	kf := &KnownFindings{}
	b, err := os.ReadFile(path)
	if err != nil {
		if os.IsNotExist(err) {
			return kf, nil
		}
		return nil, err
	}
	if err := json.Unmarshal(b, kf); err != nil {
		return nil, err
	}
	return kf, nil
}

func (k *KnownFindings) Lookup(prop, sig string) (string, bool) {
	for _, f := range k.Findings {
		if f.Property == prop && f.Key == sig {
			return f.What, true
		}
	}
	return "", false
}
