package core

import (
	"bytes"
	"encoding/json"
	"fmt"
	"os"
	"os/exec"
	"path/filepath"
	"regexp"
	"runtime"
	"runtime/debug"
	"sort"
	"strconv"
	"strings"
	"sync"
	"syscall"
	"time"
)

// VerifDir is where evidence, replays and known findings live.
// ShardOf assigns case k to one of n shard processes. Consecutive cases go to different shards, and the assignment
// rotates by one from each block of n cases to the next: case kinds are chosen by k mod m in most properties, and
// with a plain k mod n every shard process would only ever run the kinds congruent to its own number, so that
// nothing a process remembers from one kind could meet another kind.
func ShardOf(k, n int) int {
	if n <= 1 {
		return 0
	}
	return (k + k/n) % n
}

func VerifDir() string {
	if d := os.Getenv("VERIF_DIR"); d != "" {
		return d
	}
	return "/verif"
}

// OutDir is where evidence and replay files are written (VERIF_OUT overrides it for self-test runs against
// scratch copies, so that they never overwrite the evidence of the real tree).
func OutDir() string {
	if d := os.Getenv("VERIF_OUT"); d != "" {
		return d
	}
	return VerifDir()
}

func SeedFromEnv() int64 {
	if s := os.Getenv("VERIF_SEED"); s != "" {
		if v, err := strconv.ParseInt(s, 10, 64); err == nil {
			return v
		}
	}
	return 1
}

// ---------------------------------------------------------------- shard side

type shardArgs struct {
	Prop     string
	Tier     string
	Seed     int64
	Shard, N int
	From     int    // first case index to consider (restart after a death)
	Only     int    // -1 or a single case
	Skip     string // comma-separated case indices not to run (cases a previous process of this shard died or hung in)
	Out      string
	Progress string
	CPUMul   float64
	Max      int // stop after this many cases (fresh process per batch); 0 = no limit
	Race     bool
	Verbose  bool
}

func cpuSeconds() float64 {
	var ru syscall.Rusage
	_ = syscall.Getrusage(syscall.RUSAGE_SELF, &ru)
	return float64(ru.Utime.Sec+ru.Stime.Sec) + float64(ru.Utime.Usec+ru.Stime.Usec)/1e6
}

// RunShard executes the cases k ≡ shard (mod n) in this process.
func RunShard(a shardArgs) int {
	p := Get(a.Prop)
	if p == nil {
		fmt.Fprintf(os.Stderr, "unknown property %s\n", a.Prop)
		return 2
	}
	res := NewShardResult()
	ncases := p.NCases(a.Tier)
	caseFn := p.Case
	if a.Race {
		ncases = p.RaceNCases(a.Tier)
		caseFn = p.RaceCase
	}
	budget := p.CaseCPU
	if budget == 0 {
		budget = 30
	}
	if a.CPUMul > 0 {
		budget *= a.CPUMul
	}
	if a.Race {
		budget *= 10
	}
	var pf *os.File
	if a.Progress != "" {
		pf, _ = os.OpenFile(a.Progress, os.O_CREATE|os.O_WRONLY, 0o644)
	}
	writeOut := func() {
		res.mu.Lock()
		res.Hashes = res.Hashes[:0]
		for h := range res.hashSet {
			res.Hashes = append(res.Hashes, h)
		}
		b, _ := json.Marshal(res)
		res.mu.Unlock()
		tmp := a.Out + ".tmp"
		_ = os.WriteFile(tmp, b, 0o644)
		_ = os.Rename(tmp, a.Out)
	}

	// Watchdog on logical cost: CPU seconds of this process since the case began, live heap.
	var wmu sync.Mutex
	curCase, caseStartCPU := -1, 0.0
	stop := make(chan struct{})
	go func() {
		t := time.NewTicker(200 * time.Millisecond)
		defer t.Stop()
		var ms runtime.MemStats
		tick := 0
		// A case that is blocked for good (a deadlock) burns no CPU, so the cost budget never fires. It is recognised
		// by the absence of progress: the process has consumed less than a quarter of a CPU second over stallTicks
		// consecutive watchdog ticks of one case. Ticks are counted, not wall time read, so a frozen sandbox (no
		// ticks at all) does not count as a stall.
		stallTicks := 300 // 60 s of 200 ms ticks
		if a.CPUMul > 0 {
			stallTicks = 750 // re-run alone: 150 s
		}
		stallCase, stalled, stallBase := -2, 0, 0.0
		for {
			select {
			case <-stop:
				return
			case <-t.C:
			}
			wmu.Lock()
			k, st := curCase, caseStartCPU
			wmu.Unlock()
			if k < 0 {
				stallCase = -2
				continue
			}
			why := ""
			now := cpuSeconds()
			if now-st > budget {
				why = "cpu"
			}
			if k != stallCase || now-stallBase >= 0.25 {
				stallCase, stalled, stallBase = k, 0, now
			} else if stalled++; stalled >= stallTicks {
				why = "blocked"
			}
			tick++
			if (tick%5 == 0 || ms.HeapAlloc > 2<<30) && !a.Race { // once a second; every tick once the heap is large
				runtime.ReadMemStats(&ms)
				if ms.HeapAlloc > 6<<30 {
					why = "heap"
				}
			}
			if why != "" {
				res.mu.Lock()
				res.Abort, res.AbortCase, res.AbortSig = why, k, res.curHangSig
				res.mu.Unlock()
				writeOut()
				// dump goroutines for the log, then leave
				buf := make([]byte, 1<<20)
				n := runtime.Stack(buf, true)
				fmt.Fprintf(os.Stderr, "WATCHDOG %s case=%d\n%s\n", why, k, buf[:n])
				os.Exit(3)
			}
		}
	}()

	skip := map[int]bool{}
	for _, f := range strings.Split(a.Skip, ",") {
		if n, err := strconv.Atoi(strings.TrimSpace(f)); err == nil {
			skip[n] = true
		}
	}
	res.mu.Lock()
	res.Ckpt = a.From
	res.mu.Unlock()
	lastWrite := time.Now()
	for k := 0; k < ncases; k++ {
		if a.Only >= 0 {
			if k != a.Only {
				continue
			}
		} else if ShardOf(k, a.N) != a.Shard || k < a.From || skip[k] {
			continue
		}
		if pf != nil {
			_, _ = pf.WriteAt([]byte(fmt.Sprintf("%-12d", k)), 0)
		}
		c := &C{PropID: a.Prop, Tier: a.Tier, Seed: a.Seed, K: k, R: CaseRand(a.Seed, a.Prop, k), res: res, Verbose: a.Verbose}
		res.mu.Lock()
		res.curHangSig = ""
		res.mu.Unlock()
		wmu.Lock()
		curCase, caseStartCPU = k, cpuSeconds()
		wmu.Unlock()
		func() {
			defer func() {
				if r := recover(); r != nil {
					c.Violate("unrecovered-panic", fmt.Sprintf("panic escaped the case body: %v", r), string(debug.Stack()))
				}
			}()
			caseFn(c)
		}()
		wmu.Lock()
		curCase = -1
		wmu.Unlock()
		res.mu.Lock()
		res.Cases++
		res.Ckpt = k + 1
		res.mu.Unlock()
		if a.Max > 0 && res.Cases >= a.Max && a.Only < 0 {
			res.Next = k + 1
			break
		}
		if time.Since(lastWrite) > 5*time.Second { // not a verdict, only checkpointing
			writeOut()
			lastWrite = time.Now()
		}
	}
	close(stop)
	res.Done = res.Next == 0
	writeOut()
	return 0
}

// --------------------------------------------------------------- parent side

type ParentCtx struct {
	Prop    *Prop
	Tier    string
	Seed    int64
	Merged  *ShardResult
	Exe     string
	RaceExe string
	Scratch string
	Known   *KnownFindings
	Info    map[string]any
	Incon   []string
	mu      sync.Mutex
}

func (p *ParentCtx) Thorough() bool { return p.Tier == "thorough" }

var hangMu sync.Mutex
var hangConfirmed = map[string]bool{}

func (p *ParentCtx) confirmedHang(sig string) bool {
	hangMu.Lock()
	defer hangMu.Unlock()
	return hangConfirmed[sig]
}

func (p *ParentCtx) confirmHang(sig string) {
	hangMu.Lock()
	hangConfirmed[sig] = true
	hangMu.Unlock()
}
func (p *ParentCtx) Inconclusive(reason string) {
	p.mu.Lock()
	p.Incon = append(p.Incon, reason)
	p.mu.Unlock()
}
func (p *ParentCtx) Cover(key string, n int) {
	p.mu.Lock()
	p.Merged.Cover[key] += n
	p.mu.Unlock()
}
func (p *ParentCtx) Evals(n int) {
	p.mu.Lock()
	p.Merged.Evaluations += n
	p.mu.Unlock()
}
func (p *ParentCtx) Distinct(h uint64) {
	p.mu.Lock()
	p.Merged.hashSet[h] = struct{}{}
	p.mu.Unlock()
}
func (p *ParentCtx) Sample(v any) {
	p.mu.Lock()
	if len(p.Merged.Samples) < 6 {
		p.Merged.Samples = append(p.Merged.Samples, v)
	}
	p.mu.Unlock()
}
func (p *ParentCtx) Violate(sig, msg string, detail any) {
	p.mu.Lock()
	n := 0
	for _, v := range p.Merged.Violations {
		if v.Sig == sig {
			n++
		}
	}
	if n < 3 {
		p.Merged.Violations = append(p.Merged.Violations, Violation{Prop: p.Prop.ID, Sig: sig, Msg: msg, Case: -1, Detail: detail})
	}
	p.Merged.Cover["violations:"+sig]++
	p.mu.Unlock()
}

func merge(dst, src *ShardResult) {
	dst.Evaluations += src.Evaluations
	dst.Cases += src.Cases
	for _, h := range src.Hashes {
		dst.hashSet[h] = struct{}{}
	}
	for k, v := range src.Cover {
		dst.Cover[k] += v
	}
	for _, s := range src.Samples {
		if len(dst.Samples) < 4 {
			dst.Samples = append(dst.Samples, s)
		}
	}
	dst.Violations = append(dst.Violations, src.Violations...)
	dst.Slow = append(dst.Slow, src.Slow...)
	dst.Incon = append(dst.Incon, src.Incon...)
}

func readShard(path string) *ShardResult {
	b, err := os.ReadFile(path)
	if err != nil {
		return nil
	}
	r := NewShardResult()
	if json.Unmarshal(b, r) != nil {
		return nil
	}
	if r.Cover == nil {
		r.Cover = map[string]int{}
	}
	return r
}

func tailFile(path string, n int) string {
	b, err := os.ReadFile(path)
	if err != nil {
		return ""
	}
	if len(b) > n {
		b = b[len(b)-n:]
	}
	return string(b)
}

func headFile(path string, n int) string {
	b, err := os.ReadFile(path)
	if err != nil {
		return ""
	}
	if len(b) > n {
		b = b[:n]
	}
	return string(b)
}

var raceRe = regexp.MustCompile(`(?s)WARNING: DATA RACE.*?==================`)

// supervise runs one shard to completion, restarting after deaths; returns merged result for the shard.
func supervise(pc *ParentCtx, race bool, shard, n int, out *ShardResult, mu *sync.Mutex) {
	p := pc.Prop
	exe := pc.Exe
	if race {
		exe = pc.RaceExe
	}
	from := 0
	blocked := 0
	var skips []string // cases a process of this shard died or hung in: decided, never run again in the shard
	gapEnd := -1       // last index of a stretch that is being run again because its results died with a process
	// advance: case k is decided (reported, or re-run alone). The next process of this shard leaves it out and starts
	// where the last checkpoint of the ended one stops: what ran after that checkpoint died with the process and is
	// run again. A death inside such a stretch gives up on the stretch and continues behind the case (a delayed
	// effect of an earlier case would otherwise be met again and again).
	advance := func(k int, r *ShardResult) {
		if os.Getenv("VCHECK_DEBUG") != "" {
			rc, rk := -1, -1
			if r != nil {
				rc, rk = r.Cases, r.Ckpt
			}
			fmt.Fprintf(os.Stderr, "DEBUG advance shard=%d k=%d from=%d gapEnd=%d r.Cases=%d r.Ckpt=%d\n", shard, k, from, gapEnd, rc, rk)
		}
		skips = append(skips, strconv.Itoa(k))
		ckpt := from
		if r != nil && r.Ckpt > ckpt {
			ckpt = r.Ckpt
		}
		if k > gapEnd && ckpt <= k {
			from, gapEnd = ckpt, k
			return
		}
		from = k + 1
	}
	tag := fmt.Sprintf("%s-%d", map[bool]string{false: "plain", true: "race"}[race], shard)
	for attempt := 0; attempt < 200; attempt++ {
		outF := filepath.Join(pc.Scratch, tag+".json")
		progF := filepath.Join(pc.Scratch, tag+".progress")
		errF := filepath.Join(pc.Scratch, tag+".stderr")
		_ = os.Remove(outF)
		_ = os.Remove(progF)
		args := []string{"shard", "-prop", p.ID, "-tier", pc.Tier, "-seed", strconv.FormatInt(pc.Seed, 10),
			"-shard", strconv.Itoa(shard), "-n", strconv.Itoa(n), "-from", strconv.Itoa(from), "-out", outF, "-progress", progF}
		if len(skips) > 0 {
			args = append(args, "-skip", strings.Join(skips, ","))
		}
		if race {
			args = append(args, "-race")
		}
		if p.CasesPerProcess > 0 {
			args = append(args, "-max", strconv.Itoa(p.CasesPerProcess))
		}
		cmd := exec.Command(exe, args...)
		ef, _ := os.Create(errF)
		cmd.Stderr = ef
		cmd.Stdout = ef
		cmd.Env = append(os.Environ(), "VCHECK_SCRATCH="+pc.Scratch)
		if race {
			cmd.Env = append(cmd.Env, "GORACE=halt_on_error=0 log_path="+filepath.Join(pc.Scratch, tag+".racelog"))
		}
		err := cmd.Run()
		ef.Close()
		r := readShard(outF)
		if r != nil {
			mu.Lock()
			merge(out, r)
			mu.Unlock()
		}
		if err == nil && r != nil && r.Done {
			return
		}
		if err == nil && r != nil && r.Next > 0 {
			from = r.Next
			attempt-- // a planned restart, not a death
			continue
		}
		// The child died or the watchdog fired: attribute to the case in the progress file.
		k := -1
		if b, e := os.ReadFile(progF); e == nil {
			k, _ = strconv.Atoi(strings.TrimSpace(string(b)))
		}
		if r != nil && r.Abort != "" {
			k = r.AbortCase
			// Re-run the case alone with 10x budget: only exceeding that is a hang.
			// (A hang whose declared signature is a listed known finding is not re-run.)
			sig := "hang-" + r.Abort
			if r.AbortSig != "" {
				sig = r.AbortSig
			}
			_, known := pc.Known.Lookup(p.ID, sig)
			ok := false
			// a signature that a re-run alone has already confirmed in this run is not re-run again (a change that
			// blocks one case blocks many; every further case would cost minutes)
			if !known && !pc.confirmedHang(sig) {
				var ar *ShardResult
				ar, ok, _ = rerunAloneRes(pc, exe, race, k, 10)
				if ok {
					// what the case observed when it ran to its end counts (the aborted attempt recorded only its beginning)
					mu.Lock()
					merge(out, ar)
					mu.Unlock()
				} else {
					pc.confirmHang(sig)
				}
			}
			if r.Abort == "blocked" {
				blocked++
			}
			if !ok && p.CrashInconclusive {
				pc.Inconclusive(fmt.Sprintf("case %d exceeded the %s budget (totality is not this property's subject): %s", k, r.Abort, tailFile(errF, 400)))
				ok = true
			}
			mu.Lock()
			if !ok {
				out.Violations = append(out.Violations, Violation{Prop: p.ID, Sig: sig, Case: k,
					Msg:    fmt.Sprintf("case %d exceeded the %s budget (cpu/heap: logical cost, not wall time; blocked: no CPU consumed over 300 consecutive watchdog ticks (750 when re-run alone), i.e. every goroutine of the case waits; re-run alone with a larger margin unless the cause is a listed known finding)", k, r.Abort),
					Detail: tailFile(errF, 4000)})
				out.Cover["violations:"+sig]++
			} else {
				out.Slow = append(out.Slow, k)
			}
			mu.Unlock()
		} else {
			status := "unknown"
			if err != nil {
				status = err.Error()
			}
			if k < 0 {
				pc.Inconclusive(fmt.Sprintf("shard %s died before its first case: %s: %s", tag, status, tailFile(errF, 600)))
				return
			}
			if killedByKernel(cmd) {
				// SIGKILL, which nothing in the harness sends: the kernel's out-of-memory killer. It picks the largest
				// process of the machine, which is the culprit only if it is; and it can be faster than the heap
				// watchdog. The case is decided by a run alone, under the watchdog: completing there means the death
				// was collateral, exceeding a budget there is reported as that (with the signature the case declared).
				ar, aok, akilled := rerunAloneRes(pc, exe, race, k, 10)
				mu.Lock()
				out.Cover["children-killed-by-the-kernel(decided-by-a-run-alone)"]++
				mu.Unlock()
				if aok {
					mu.Lock()
					merge(out, ar)
					out.Slow = append(out.Slow, k)
					mu.Unlock()
					advance(k, r)
					continue
				}
				if !akilled && ar != nil && ar.Abort != "" {
					sig := "hang-" + ar.Abort
					if ar.AbortSig != "" {
						sig = ar.AbortSig
					}
					if p.CrashInconclusive {
						pc.Inconclusive(fmt.Sprintf("case %d exceeded the %s budget when re-run alone after the kernel killed its shard (totality is not this property's subject)", k, ar.Abort))
					} else {
						mu.Lock()
						out.Violations = append(out.Violations, Violation{Prop: p.ID, Sig: sig, Case: k,
							Msg:    fmt.Sprintf("the kernel killed the shard running case %d (out of memory), and re-run alone the case exceeded the %s budget", k, ar.Abort),
							Detail: headFile(errF, 3000)})
						out.Cover["violations:"+sig]++
						mu.Unlock()
					}
					advance(k, r)
					continue
				}
				if akilled {
					// killed again although it ran alone under the heap watchdog: memory is short on this machine for
					// reasons the harness cannot attribute (neighbouring processes); not decided
					pc.Inconclusive(fmt.Sprintf("the kernel killed the shard running case %d and killed the case again when it ran alone (out of memory on this machine)", k))
					advance(k, r)
					continue
				}
				status += "; died when re-run alone"
			}
			if p.CrashInconclusive {
				pc.Inconclusive(fmt.Sprintf("child died (%s) in case %d (totality is not this property's subject): %s", status, k, headFile(errF, 400)))
				advance(k, r)
				continue
			}
			mu.Lock()
			out.Violations = append(out.Violations, Violation{Prop: p.ID, Sig: "process-death", Case: k,
				Msg:    fmt.Sprintf("child process died (%s) while running case %d", status, k),
				Detail: headFile(errF, 3000)})
			out.Cover["violations:process-death"]++
			mu.Unlock()
		}
		advance(k, r)
		if blocked >= 3 {
			// three blocked cases are reported; the rest of this shard's cases are not run (each would wait again)
			mu.Lock()
			out.Cover["shard-stopped-after-three-blocked-cases"]++
			mu.Unlock()
			return
		}
	}
	pc.Inconclusive("shard " + tag + " restarted too often")
}

func rerunAlone(pc *ParentCtx, exe string, race bool, k int, mul float64) bool {
	_, ok, _ := rerunAloneRes(pc, exe, race, k, mul)
	return ok
}

// killedByKernel reports whether the child ended by SIGKILL.
func killedByKernel(cmd *exec.Cmd) bool {
	if cmd.ProcessState == nil {
		return false
	}
	ws, ok := cmd.ProcessState.Sys().(syscall.WaitStatus)
	return ok && ws.Signaled() && ws.Signal() == syscall.SIGKILL
}

// rerunAloneRes runs case k in a process of its own and returns what that process wrote, whether it completed, and
// whether it was killed by SIGKILL.
func rerunAloneRes(pc *ParentCtx, exe string, race bool, k int, mul float64) (*ShardResult, bool, bool) {
	outF := filepath.Join(pc.Scratch, fmt.Sprintf("alone-%d.json", k))
	args := []string{"shard", "-prop", pc.Prop.ID, "-tier", pc.Tier, "-seed", strconv.FormatInt(pc.Seed, 10),
		"-only", strconv.Itoa(k), "-out", outF, "-cpumul", fmt.Sprint(mul)}
	if race {
		args = append(args, "-race")
	}
	cmd := exec.Command(exe, args...)
	cmd.Env = append(os.Environ(), "VCHECK_SCRATCH="+pc.Scratch)
	err := cmd.Run()
	r := readShard(outF)
	return r, err == nil && r != nil && r.Done, killedByKernel(cmd)
}

// RunParent is `vcheck run <id> <tier>`.
func RunParent(id, tier string) int {
	p := Get(id)
	if p == nil {
		fmt.Printf("INCONCLUSIVE property=%s reason=unknown-property\n", id)
		return 2
	}
	start := time.Now()
	seed := SeedFromEnv()
	exe, _ := os.Executable()
	pc := &ParentCtx{Prop: p, Tier: tier, Seed: seed, Exe: exe, RaceExe: os.Getenv("VCHECK_RACE_BIN"), Info: map[string]any{}}
	kf, err := LoadKnown(filepath.Join(VerifDir(), "known_findings.json"))
	if err != nil {
		fmt.Printf("INCONCLUSIVE property=%s reason=known-findings-unreadable:%v\n", id, err)
		return 2
	}
	pc.Known = kf
	scratch, cleanup, err := SetupChildEnv("vcheck-" + id + "-")
	if err != nil {
		fmt.Printf("INCONCLUSIVE property=%s reason=no-scratch:%v\n", id, err)
		return 2
	}
	defer cleanup()
	pc.Scratch = scratch
	merged := NewShardResult()
	pc.Merged = merged
	var mu sync.Mutex

	nshards := p.Shards
	if nshards == 0 {
		nshards = runtime.NumCPU()
	}
	if p.NCases != nil && p.Case != nil {
		nc := p.NCases(tier)
		if nc < nshards {
			nshards = nc
		}
		var wg sync.WaitGroup
		for i := 0; i < nshards; i++ {
			wg.Add(1)
			go func(i int) {
				defer wg.Done()
				supervise(pc, false, i, nshards, merged, &mu)
			}(i)
		}
		wg.Wait()
	}
	if p.RaceCase != nil {
		if pc.RaceExe == "" {
			pc.Inconclusive("race binary not configured")
		} else {
			nr := p.RaceNCases(tier)
			ns := runtime.NumCPU() / 2
			if nr < ns {
				ns = nr
			}
			var wg sync.WaitGroup
			for i := 0; i < ns; i++ {
				wg.Add(1)
				go func(i int) {
					defer wg.Done()
					supervise(pc, true, i, ns, merged, &mu)
				}(i)
			}
			wg.Wait()
			collectRaceLogs(pc)
		}
	}
	if p.Parent != nil {
		func() {
			defer func() {
				if r := recover(); r != nil {
					pc.Inconclusive(fmt.Sprintf("parent stage panicked: %v\n%s", r, debug.Stack()))
				}
			}()
			p.Parent(pc)
		}()
	}
	for i, r := range merged.Incon {
		if i < 5 {
			pc.Inconclusive(r)
		}
	}
	for _, k := range p.MustCover {
		if merged.Cover[k] == 0 {
			pc.Inconclusive("coverage key never observed: " + k)
		}
	}
	return finish(pc, start)
}

// collectRaceLogs parses GORACE logs: any report with a protobom frame is a violation,
// a report with only harness frames means the check itself is broken.
func collectRaceLogs(pc *ParentCtx) {
	files, _ := filepath.Glob(filepath.Join(pc.Scratch, "*.racelog.*"))
	seen := map[string]bool{}
	total := 0
	for _, f := range files {
		b, _ := os.ReadFile(f)
		for _, rep := range raceRe.FindAllString(string(b), -1) {
			total++
			sig := raceSignature(rep)
			if seen[sig] {
				continue
			}
			seen[sig] = true
			if strings.Contains(rep, "github.com/protobom/protobom/") {
				pc.Violate("data-race:"+sig, "race detector report with protobom frames", rep)
			} else {
				pc.Inconclusive("race report without protobom frames (harness race): " + sig)
			}
		}
	}
	pc.Cover("race_reports_total", total)
	pc.Cover("race_reports_distinct", len(seen))
	pc.Info["race_logs_parsed"] = len(files)
}

var frameRe = regexp.MustCompile(`(?m)^  (github\.com/protobom/protobom/\S*)\(\)\s*$`)

// raceSignature: the outermost protobom entry points of the two stacks, sorted.
func raceSignature(rep string) string {
	parts := regexp.MustCompile(`(?m)^(Previous |Read |Write |Goroutine )`).Split(rep, -1)
	var tops []string
	for _, st := range parts {
		m := frameRe.FindAllStringSubmatch(st, -1)
		if len(m) == 0 {
			continue
		}
		// innermost protobom frame identifies the racing access; outermost the entry point
		in := m[0][1]
		outm := m[len(m)-1][1]
		tops = append(tops, shortFn(outm)+">"+shortFn(in))
		if len(tops) == 2 {
			break
		}
	}
	sort.Strings(tops)
	if len(tops) == 0 {
		return "no-protobom-frames"
	}
	return strings.Join(tops, "|")
}

func shortFn(s string) string {
	return strings.TrimPrefix(s, "github.com/protobom/protobom/pkg/")
}

func finish(pc *ParentCtx, start time.Time) int {
	p, merged := pc.Prop, pc.Merged
	// split violations into known findings and new ones
	type agg struct {
		v Violation
		n int
	}
	bySig := map[string]*agg{}
	order := []string{}
	for _, v := range merged.Violations {
		if a, ok := bySig[v.Sig]; ok {
			a.n++
			continue
		}
		bySig[v.Sig] = &agg{v: v, n: 1}
		order = append(order, v.Sig)
	}
	sort.Strings(order)
	newV := 0
	knownHit := []string{}
	replayDir := filepath.Join(OutDir(), "replays", p.ID)
	for _, sig := range order {
		a := bySig[sig]
		if what, ok := pc.Known.Lookup(p.ID, sig); ok {
			fmt.Printf("KNOWN-FINDING: property=%s %s [key=%s, seen %d times this run]\n", p.ID, what, sig, merged.Cover["violations:"+sig])
			knownHit = append(knownHit, sig)
			continue
		}
		newV++
		if newV > 10 {
			continue
		}
		_ = os.MkdirAll(replayDir, 0o755)
		path := filepath.Join(replayDir, fmt.Sprintf("%s-seed%d-%s.json", pc.Tier, pc.Seed, sanitize(sig)))
		rb, _ := json.MarshalIndent(map[string]any{
			"property": p.ID, "tier": pc.Tier, "seed": pc.Seed, "case": a.v.Case, "signature": sig,
			"message": a.v.Msg, "detail": a.v.Detail, "occurrences": merged.Cover["violations:"+sig],
		}, "", " ")
		_ = os.WriteFile(path, rb, 0o644)
		fmt.Printf("VIOLATION property=%s replay=%s\n", p.ID, path)
		fmt.Printf("  signature=%s case=%d: %s\n", sig, a.v.Case, truncate(a.v.Msg, 600))
	}
	nd := len(merged.hashSet)
	cover := map[string]any{}
	keys := make([]string, 0, len(merged.Cover))
	for k := range merged.Cover {
		keys = append(keys, k)
	}
	sort.Strings(keys)
	obs := map[string]int{}
	for _, k := range keys {
		obs[k] = merged.Cover[k]
	}
	cover["evaluations"] = merged.Evaluations
	cover["distinct_nontrivial"] = nd
	cover["rule"] = p.Rule
	cover["samples"] = merged.Samples
	cover["cases_run"] = merged.Cases
	cover["observed"] = obs
	cover["known_findings_confirmed"] = knownHit
	cover["slow_cases_rerun_alone"] = len(merged.Slow)
	if p.Exhaustive != nil && p.Exhaustive(pc.Tier) {
		cover["exhaustive"] = true
	}
	if p.ExhaustiveSubspaces != nil {
		cover["exhaustive_subspaces"] = p.ExhaustiveSubspaces(pc.Tier)
	}
	for k, v := range pc.Info {
		cover[k] = v
	}
	ev := map[string]any{
		"property_id": p.ID, "tier": pc.Tier, "seed": pc.Seed, "level": p.Level,
		"coverage": cover, "assumptions": p.Assumptions,
		"wall_s": time.Since(start).Seconds(), "violations": newV,
	}
	if len(pc.Incon) > 0 {
		ev["inconclusive"] = pc.Incon
	}
	incon := len(pc.Incon) > 0
	if merged.Evaluations == 0 || nd < 2 || len(merged.Samples) == 0 {
		incon = true
		pc.Incon = append(pc.Incon, fmt.Sprintf("observed too little: evaluations=%d distinct=%d samples=%d", merged.Evaluations, nd, len(merged.Samples)))
	}
	if !incon || newV > 0 {
		eb, _ := json.MarshalIndent(ev, "", " ")
		_ = os.MkdirAll(filepath.Join(OutDir(), "evidence"), 0o755)
		_ = os.WriteFile(filepath.Join(OutDir(), "evidence", p.ID+".json"), append(eb, '\n'), 0o644)
	}
	fmt.Printf("property=%s tier=%s seed=%d cases=%d evaluations=%d distinct_nontrivial=%d new_violations=%d known=%d wall=%.1fs\n",
		p.ID, pc.Tier, pc.Seed, merged.Cases, merged.Evaluations, nd, newV, len(knownHit), time.Since(start).Seconds())
	if newV > 0 {
		return 1
	}
	if incon {
		for _, r := range pc.Incon {
			fmt.Printf("INCONCLUSIVE property=%s reason=%s\n", p.ID, truncate(strings.ReplaceAll(r, "\n", " | "), 500))
		}
		return 2
	}
	return 0
}

func sanitize(s string) string {
	var b bytes.Buffer
	for _, r := range s {
		if (r >= 'a' && r <= 'z') || (r >= 'A' && r <= 'Z') || (r >= '0' && r <= '9') || r == '-' || r == '_' {
			b.WriteRune(r)
		} else {
			b.WriteByte('_')
		}
	}
	out := b.String()
	if len(out) > 80 {
		out = out[:80]
	}
	return out
}

func truncate(s string, n int) string {
	if len(s) > n {
		return s[:n] + "…"
	}
	return s
}

// RunReplay re-executes the case stored in a replay file in this process.
func RunReplay(path string) int {
	b, err := os.ReadFile(path)
	if err != nil {
		fmt.Println(err)
		return 2
	}
	var r struct {
		Property string `json:"property"`
		Tier     string `json:"tier"`
		Seed     int64  `json:"seed"`
		Case     int    `json:"case"`
		Sig      string `json:"signature"`
	}
	if err := json.Unmarshal(b, &r); err != nil {
		fmt.Println(err)
		return 2
	}
	if r.Case < 0 {
		fmt.Printf("replay: violation %s was found by the parent stage; re-run `run.sh %s %s` with VERIF_SEED=%d\n", r.Sig, r.Property, r.Tier, r.Seed)
		return 2
	}
	if os.Getenv("VCHECK_SCRATCH") == "" {
		_, cleanup, err := SetupChildEnv("vreplay-")
		if err != nil {
			fmt.Println("replay: no scratch directory:", err)
			return 2
		}
		defer cleanup()
	}
	out := filepath.Join(os.TempDir(), fmt.Sprintf("vreplay-%d.json", os.Getpid()))
	defer os.Remove(out)
	RunShard(shardArgs{Prop: r.Property, Tier: r.Tier, Seed: r.Seed, Only: r.Case, Out: out, Verbose: true, N: 1})
	res := readShard(out)
	if res == nil {
		return 2
	}
	for _, v := range res.Violations {
		fmt.Printf("REPRODUCED property=%s signature=%s: %s\n", v.Prop, v.Sig, truncate(v.Msg, 2000))
	}
	if len(res.Violations) > 0 {
		return 1
	}
	fmt.Println("not reproduced (case ran clean)")
	return 0
}
