package core

import (
	"flag"
	"fmt"
	"os"
)

// Main dispatches `vcheck run|shard|replay|list`.
func Main(extra func(args []string) (int, bool)) {
	if len(os.Args) < 2 {
		fmt.Println("usage: vcheck run <id> <tier> | replay <file> | list")
		os.Exit(2)
	}
	switch os.Args[1] {
	case "run":
		if len(os.Args) < 4 {
			fmt.Println("usage: vcheck run <id> <quick|thorough>")
			os.Exit(2)
		}
		os.Exit(RunParent(os.Args[2], os.Args[3]))
	case "shard":
		fs := flag.NewFlagSet("shard", flag.ExitOnError)
		var a shardArgs
		fs.StringVar(&a.Prop, "prop", "", "")
		fs.StringVar(&a.Tier, "tier", "quick", "")
		fs.Int64Var(&a.Seed, "seed", 1, "")
		fs.IntVar(&a.Shard, "shard", 0, "")
		fs.IntVar(&a.N, "n", 1, "")
		fs.IntVar(&a.From, "from", 0, "")
		fs.IntVar(&a.Only, "only", -1, "")
		fs.StringVar(&a.Skip, "skip", "", "")
		fs.StringVar(&a.Out, "out", "", "")
		fs.StringVar(&a.Progress, "progress", "", "")
		fs.Float64Var(&a.CPUMul, "cpumul", 0, "")
		fs.IntVar(&a.Max, "max", 0, "")
		fs.BoolVar(&a.Race, "race", false, "")
		fs.BoolVar(&a.Verbose, "v", false, "")
		_ = fs.Parse(os.Args[2:])
		os.Exit(RunShard(a))
	case "replay":
		os.Exit(RunReplay(os.Args[2]))
	case "list":
		for _, id := range IDs() {
			fmt.Println(id)
		}
	default:
		if extra != nil {
			if code, ok := extra(os.Args[1:]); ok {
				os.Exit(code)
			}
		}
		fmt.Println("unknown command", os.Args[1])
		os.Exit(2)
	}
}
