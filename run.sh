#!/bin/bash
# ./run.sh <Cxx> <quick|thorough> | replay <file> | setup | list
# Builds the harness against /repo's current working tree (tag verif), then runs the check.
set -u
cd "$(dirname "$0")"
VERIF=$(pwd)
export GOFLAGS=-mod=mod GOPROXY=off GOSUMDB=off GOTOOLCHAIN=local
export VERIF_DIR=$VERIF
REPO=${VERIF_REPO:-/repo}
BIN=$VERIF/bin
mkdir -p "$BIN"
MODFILE=""
if [ "$REPO" != "/repo" ]; then
  # scratch copy of the repository (selftest / seeded changes): redirect the replace directive
  sfx=$(echo "$REPO" | md5sum | cut -c1-8)
  sed "s#=> /repo#=> $REPO#" harness/go.mod > harness/go.alt-$sfx.mod
  cp harness/go.sum harness/go.alt-$sfx.sum
  MODFILE="-modfile=$VERIF/harness/go.alt-$sfx.mod"
  BIN=$VERIF/bin/alt-$sfx
  mkdir -p "$BIN"
fi
# The binary is linked under a private name and moved into place only when it differs from the one already there:
# checks may run side by side, and a binary that is being executed cannot be rewritten in place.
build_to() { # <name> <package> [extra go build flags]
  local name=$1 pkg=$2; shift 2
  local tmp="$BIN/.$name.$$"
  (cd harness && go build $MODFILE -tags verif "$@" -o "$tmp" "$pkg") || { rm -f "$tmp"; return 1; }
  if [ -f "$BIN/$name" ] && cmp -s "$tmp" "$BIN/$name"; then rm -f "$tmp"; else mv -f "$tmp" "$BIN/$name"; fi
}
build() { build_to vcheck ./cmd/vcheck; }
# vcold: the cold-start trial of C17 as a program of its own (it must not link anything that touches the reader or
# writer package at init time)
build_race() { build_to vcheck-race ./cmd/vcheck -race && build_to vcold ./cmd/vcold && build_to vcold-race ./cmd/vcold -race; }
needs_race() { case "$1" in C11|C17) return 0;; esac; return 1; }
case "${1:-}" in
  setup)
    build || { echo "setup: build failed"; exit 2; }
    build_race || { echo "setup: race build failed"; exit 2; }
    echo "setup ok"; exit 0;;
  list) build >/dev/null || exit 2; exec "$BIN/vcheck" list;;
  replay)
    build || exit 2
    exec "$BIN/vcheck" replay "$2";;
  C*)
    id=$1; tier=${2:-quick}
    out=$(build 2>&1) || { echo "$out"; echo "INCONCLUSIVE property=$id reason=harness-does-not-build"; exit 2; }
    if needs_race "$id"; then
      out=$(build_race 2>&1) || { echo "$out"; echo "INCONCLUSIVE property=$id reason=race-build-failed"; exit 2; }
      export VCHECK_RACE_BIN="$BIN/vcheck-race"
    fi
    "$BIN/vcheck" run "$id" "$tier"; rc=$?
    [ -n "$MODFILE" ] && rm -f harness/go.alt-$sfx.mod harness/go.alt-$sfx.sum
    exit $rc;;
  *) echo "usage: $0 <Cxx> <quick|thorough> | replay <file> | setup | list"; exit 2;;
esac
